------------------------------ MODULE Pipelines ------------------------------
(***************************************************************************)
(* C13: pipelines denote the SEQUENCE of their steps; `+` is concatenation *)
(* with the empty pipeline as identity; transform folds the steps over the *)
(* input, evaluating every step parameter from the same options at         *)
(* evaluation time.  Steps: decorated steps with an option-valued          *)
(* parameter, plain callables, the empty pipeline, and the helper steps of *)
(* labrea.functions (each the corresponding Python operation with the      *)
(* documented operand order).                                              *)
(* Uninterpreted steps yield terms T(name, <<input, parameter>>), so a     *)
(* dropped, duplicated or reordered step is visible in the result.         *)
(***************************************************************************)
EXTENDS Values, Integers

Ok(v) == [ok |-> TRUE, v |-> v]
Fail(cls, keys) == [ok |-> FALSE, cls |-> cls, keys |-> keys]
IllTyped == Fail("IllTyped", {})

\* steps
Dec(name, p, dflt) == [k |-> "dec", name |-> name, p |-> p, dflt |-> dflt]      \* dflt = Absent: no default
Plain(name) == [k |-> "plain", name |-> name]
HelperC(h, c) == [k |-> "helper", h |-> h, mode |-> "const", c |-> c]           \* parameter given as a constant
HelperO(h, p) == [k |-> "helper", h |-> h, mode |-> "opt", p |-> p]             \* parameter read from option p
Helper0(h) == [k |-> "helper", h |-> h, mode |-> "none"]                        \* no parameter (negate, length, ...)
EmptyP == [k |-> "empty"]

Leaf(s) == [t |-> "leaf", s |-> s]
Plus(l, r) == [t |-> "plus", l |-> l, r |-> r]

RECURSIVE Flatten(_)
Flatten(term) ==
    IF term.t = "leaf" THEN (IF term.s.k = "empty" THEN <<>> ELSE <<term.s>>)
    ELSE Flatten(term.l) \o Flatten(term.r)

Q(n, m) == [t |-> "q", n |-> n, m |-> m]       \* the exact quotient n / m (Python true division)
IsInt(v) == v.t = "i"
IsSeq(v) == v.t \in {"l", "u"}
Elems(v) == IF v.t = "e" THEN v.e ELSE {v.l[i] : i \in 1 .. Len(v.l)}
SetV(s) == [t |-> "e", e |-> s]
BoolV(b) == [t |-> "b", b |-> b]
Mod(a, b) == a % b                             \* b > 0 in the universes used

\* helper h with evaluated parameter a applied to input x
HelperApply(h, a, x) ==
    CASE h = "add"           -> IF IsInt(x) /\ IsInt(a) THEN Ok(I(x.i + a.i))
                                ELSE IF x.t = "s" /\ a.t = "s" THEN Ok(Sv(x.s \o a.s))       \* input + parameter, in this order
                                ELSE IF x.t = "l" /\ a.t = "l" THEN Ok(Lv(x.l \o a.l))
                                ELSE IllTyped
      [] h = "subtract"      -> IF IsInt(x) /\ IsInt(a) THEN Ok(I(x.i - a.i)) ELSE IllTyped
      [] h = "multiply"      -> IF IsInt(x) /\ IsInt(a) THEN Ok(I(x.i * a.i)) ELSE IllTyped
      [] h = "left_multiply" -> IF IsInt(x) /\ IsInt(a) THEN Ok(I(a.i * x.i)) ELSE IllTyped
      [] h = "divide_by"     -> IF IsInt(x) /\ IsInt(a) /\ a.i # 0 THEN Ok(Q(x.i, a.i)) ELSE IllTyped
      [] h = "divide_into"   -> IF IsInt(x) /\ IsInt(a) /\ x.i # 0 THEN Ok(Q(a.i, x.i)) ELSE IllTyped
      [] h = "modulo"        -> IF IsInt(x) /\ IsInt(a) /\ a.i > 0 /\ x.i >= 0 THEN Ok(I(Mod(x.i, a.i))) ELSE IllTyped
      [] h = "eq"            -> Ok(BoolV(x = a))
      [] h = "ne"            -> Ok(BoolV(x # a))
      [] h = "gt"            -> IF IsInt(x) /\ IsInt(a) THEN Ok(BoolV(x.i > a.i)) ELSE IllTyped
      [] h = "ge"            -> IF IsInt(x) /\ IsInt(a) THEN Ok(BoolV(x.i >= a.i)) ELSE IllTyped
      [] h = "lt"            -> IF IsInt(x) /\ IsInt(a) THEN Ok(BoolV(x.i < a.i)) ELSE IllTyped
      [] h = "le"            -> IF IsInt(x) /\ IsInt(a) THEN Ok(BoolV(x.i <= a.i)) ELSE IllTyped
      [] h = "is_in"         -> IF IsSeq(a) THEN Ok(BoolV(x \in Elems(a))) ELSE IllTyped
      [] h = "is_not_in"     -> IF IsSeq(a) THEN Ok(BoolV(x \notin Elems(a))) ELSE IllTyped
      [] h = "contains"      -> IF IsSeq(x) THEN Ok(BoolV(a \in Elems(x))) ELSE IllTyped
      [] h = "does_not_contain" -> IF IsSeq(x) THEN Ok(BoolV(a \notin Elems(x))) ELSE IllTyped
      [] h = "concat"        -> IF IsSeq(x) /\ IsSeq(a) THEN Ok(Lv(x.l \o a.l)) ELSE IllTyped
      [] h = "append"        -> IF IsSeq(x) THEN Ok(Lv(Append(x.l, a))) ELSE IllTyped
      [] h = "union"         -> IF IsSeq(x) /\ IsSeq(a) THEN Ok(SetV(Elems(x) \cup Elems(a))) ELSE IllTyped
      [] h = "intersect"     -> IF IsSeq(x) /\ IsSeq(a) THEN Ok(SetV(Elems(x) \cap Elems(a))) ELSE IllTyped
      [] h = "difference"    -> IF IsSeq(x) /\ IsSeq(a) THEN Ok(SetV(Elems(x) \ Elems(a))) ELSE IllTyped
      [] h = "symmetric_difference" ->
             IF IsSeq(x) /\ IsSeq(a) THEN Ok(SetV((Elems(x) \ Elems(a)) \cup (Elems(a) \ Elems(x)))) ELSE IllTyped
      [] h = "get"           -> \* get(key)(container): container[key]
             IF IsSeq(x) /\ IsInt(a) THEN (IF a.i >= 0 /\ a.i < Len(x.l) THEN Ok(x.l[a.i + 1]) ELSE Fail("Lookup", {}))
             ELSE IllTyped
      [] h = "get_from"      -> \* get_from(container)(key): container[key]
             IF IsSeq(a) /\ IsInt(x) THEN (IF x.i >= 0 /\ x.i < Len(a.l) THEN Ok(a.l[x.i + 1]) ELSE Fail("Lookup", {}))
             ELSE IllTyped
      [] h = "negate"        -> IF IsInt(x) THEN Ok(I(0 - x.i)) ELSE IllTyped
      [] h = "length"        -> IF IsSeq(x) THEN Ok(I(Len(x.l))) ELSE IllTyped
      [] h = "is_none"       -> Ok(BoolV(x.t = "n"))
      [] h = "positive"      -> IF IsInt(x) THEN Ok(BoolV(x.i > 0)) ELSE IllTyped
      [] h = "even"          -> IF IsInt(x) /\ x.i >= 0 THEN Ok(BoolV(Mod(x.i, 2) = 0)) ELSE IllTyped

-----------------------------------------------------------------------------
(* General helper steps: any number of parameters, each a constant, an option, or a named       *)
(* constant callable (the callables are defined on both sides: here and in the harness).        *)
PC(c) == [mode |-> "const", c |-> c]
PO(p) == [mode |-> "opt", p |-> p]
PF(f) == [mode |-> "fn", f |-> f]
HelperG(h, ps) == [k |-> "helperG", h |-> h, ps |-> ps]
Fv(f) == [t |-> "F", f |-> f]                  \* a callable as a parameter value

\* the named callables; a = sequence of arguments
FnApply(f, a) ==
    CASE f = "g"     -> IF Len(a) = 1 THEN Ok(Tv("g", a)) ELSE IllTyped            \* uninterpreted, unary
      [] f = "h2"    -> IF Len(a) = 2 THEN Ok(Tv("h2", a)) ELSE IllTyped           \* uninterpreted, binary: argument order visible
      [] f = "inc"   -> IF Len(a) = 1 /\ IsInt(a[1]) THEN Ok(I(a[1].i + 1)) ELSE IllTyped
      [] f = "dup"   -> IF Len(a) = 1 THEN Ok(Lv(<<a[1], a[1]>>)) ELSE IllTyped
      [] f = "isPos" -> IF Len(a) = 1 /\ IsInt(a[1]) THEN Ok(BoolV(a[1].i > 0)) ELSE IllTyped
      [] f = "isBig" -> IF Len(a) = 1 /\ IsInt(a[1]) THEN Ok(BoolV(a[1].i > 1)) ELSE IllTyped
      [] f = "ident" -> IF Len(a) = 1 THEN Ok(a[1]) ELSE IllTyped

\* string-keyed dictionaries: callables on keys / items
KeyFn(f, k) == IF f = "kz" THEN k \o "z" ELSE k
KeyPred(f, k) == IF f = "isA" THEN k = "a" ELSE TRUE

Truthy(v) ==
    CASE v.t = "b" -> v.b
      [] v.t = "i" -> v.i # 0
      [] v.t = "n" -> FALSE
      [] v.t \in {"l", "u"} -> Len(v.l) > 0
      [] v.t = "e" -> v.e # {}
      [] OTHER -> TRUE

AllOk(rs) == \A i \in 1 .. Len(rs) : rs[i].ok
FirstBad(rs) == rs[CHOOSE i \in 1 .. Len(rs) : ~rs[i].ok /\ \A j \in 1 .. i - 1 : rs[j].ok]
Vals(rs) == [i \in 1 .. Len(rs) |-> rs[i].v]
MapSeq(f, xs) == [i \in 1 .. Len(xs) |-> FnApply(f, <<xs[i]>>)]

RECURSIVE FoldL(_, _, _, _)
FoldL(f, acc, xs, i) ==       \* functools.reduce: f(f(f(acc, x1), x2), x3)
    IF i > Len(xs) THEN Ok(acc)
    ELSE LET r == FnApply(f, <<acc, xs[i]>>) IN IF ~r.ok THEN r ELSE FoldL(f, r.v, xs, i + 1)

IsBoolV(v) == v.t = "b"
IsDictV(v) == v.t = "d"
IntDict(v) == IsDictV(v) /\ \A k \in DOMAIN v.d : IsInt(v.d[k])

InstanceOf(ty, x) ==          \* Python: bool is a subclass of int
    CASE ty = "int" -> x.t \in {"i", "b"}
      [] ty = "str" -> x.t = "s"
      [] ty = "list" -> x.t = "l"
      [] ty = "bool" -> x.t = "b"

\* helper h with evaluated parameters a (a sequence) applied to input x
HelperGApply(h, a, x) ==
    CASE h = "map"     -> IF x.t = "l" /\ a[1].t = "F"
                          THEN (LET rs == MapSeq(a[1].f, x.l) IN IF AllOk(rs) THEN Ok(Lv(Vals(rs))) ELSE FirstBad(rs))
                          ELSE IllTyped
      [] h = "filter"  -> IF x.t = "l" /\ a[1].t = "F"
                          THEN (LET rs == MapSeq(a[1].f, x.l) IN
                                IF AllOk(rs) THEN Ok(Lv(SelectSeq(x.l, LAMBDA e : Truthy(FnApply(a[1].f, <<e>>).v)))) ELSE FirstBad(rs))
                          ELSE IllTyped
      [] h = "reduce"  -> IF x.t = "l" /\ a[1].t = "F"
                          THEN (IF Len(a) = 2 THEN FoldL(a[1].f, a[2], x.l, 1)
                                ELSE IF Len(x.l) = 0 THEN IllTyped ELSE FoldL(a[1].f, x.l[1], x.l, 2))
                          ELSE IllTyped
      [] h = "into"    -> IF x.t \in {"l", "u"} /\ a[1].t = "F" THEN FnApply(a[1].f, x.l)       \* f(*sequence)
                          \* f(**mapping): for any Mapping, not only dict (h2's parameters are named a and b)
                          ELSE IF x.t = "d" /\ a[1].t = "F" /\ a[1].f = "h2" /\ DOMAIN x.d = {"a", "b"}
                               THEN FnApply("h2", <<x.d["a"], x.d["b"]>>)
                          ELSE IllTyped
      [] h = "flatten" -> IF x.t = "l" /\ \A i \in 1 .. Len(x.l) : x.l[i].t = "l"
                          THEN Ok(Lv(Cat([i \in 1 .. Len(x.l) |-> x.l[i].l]))) ELSE IllTyped
      [] h = "flatmap" -> IF x.t = "l" /\ a[1].t = "F"
                          THEN (LET rs == MapSeq(a[1].f, x.l) IN
                                IF ~AllOk(rs) THEN FirstBad(rs)
                                ELSE IF \A i \in 1 .. Len(rs) : rs[i].v.t = "l" THEN Ok(Lv(Cat([i \in 1 .. Len(rs) |-> rs[i].v.l])))
                                ELSE IllTyped)
                          ELSE IllTyped
      [] h = "invert"  -> IF Len(a) = 0 THEN Ok(BoolV(~Truthy(x)))
                          ELSE (LET r == FnApply(a[1].f, <<x>>) IN IF r.ok THEN Ok(BoolV(~Truthy(r.v))) ELSE r)
      [] h = "all"     -> LET rs == [i \in 1 .. Len(a) |-> FnApply(a[i].f, <<x>>)] IN
                          IF AllOk(rs) THEN Ok(BoolV(\A i \in 1 .. Len(rs) : Truthy(rs[i].v))) ELSE IllTyped
      [] h = "any"     -> LET rs == [i \in 1 .. Len(a) |-> FnApply(a[i].f, <<x>>)] IN
                          IF AllOk(rs) THEN Ok(BoolV(\E i \in 1 .. Len(rs) : Truthy(rs[i].v))) ELSE IllTyped
      [] h = "has_remainder" -> IF IsInt(x) /\ IsInt(a[1]) /\ IsInt(a[2]) /\ a[1].i > 0 /\ x.i >= 0
                                THEN Ok(BoolV(Mod(x.i, a[1].i) = a[2].i)) ELSE IllTyped      \* (divisor, remainder)
      [] h = "negative"      -> IF IsInt(x) THEN Ok(BoolV(x.i < 0)) ELSE IllTyped
      [] h = "non_positive"  -> IF IsInt(x) THEN Ok(BoolV(x.i <= 0)) ELSE IllTyped
      [] h = "non_negative"  -> IF IsInt(x) THEN Ok(BoolV(x.i >= 0)) ELSE IllTyped
      [] h = "odd"           -> IF IsInt(x) /\ x.i >= 0 THEN Ok(BoolV(Mod(x.i, 2) = 1)) ELSE IllTyped
      [] h = "is_not_none"   -> Ok(BoolV(x.t # "n"))
      [] h = "one_of"        -> Ok(BoolV(\E i \in 1 .. Len(a) : a[i] = x))
      [] h = "none_of"       -> Ok(BoolV(\A i \in 1 .. Len(a) : a[i] # x))
      [] h = "intersects"    -> IF IsSeq(x) /\ IsSeq(a[1]) THEN Ok(BoolV(Elems(x) \cap Elems(a[1]) # {})) ELSE IllTyped
      [] h = "disjoint_from" -> IF IsSeq(x) /\ IsSeq(a[1]) THEN Ok(BoolV(Elems(x) \cap Elems(a[1]) = {})) ELSE IllTyped
      [] h = "get"           -> \* get(key, default)(container)
             IF IsSeq(x) /\ IsInt(a[1]) /\ a[1].i >= 0 THEN (IF a[1].i < Len(x.l) THEN Ok(x.l[a[1].i + 1]) ELSE Ok(a[2]))
             ELSE IF IsDictV(x) /\ a[1].t = "s" /\ Len(a[1].s) = 1 /\ a[1].s[1].k = "c"
                  THEN (IF a[1].s[1].c \in DOMAIN x.d THEN Ok(x.d[a[1].s[1].c]) ELSE Ok(a[2]))
             ELSE IllTyped
      [] h = "get_from"      -> \* get_from(container, default)(key)
             IF IsSeq(a[1]) /\ IsInt(x) /\ x.i >= 0 THEN (IF x.i < Len(a[1].l) THEN Ok(a[1].l[x.i + 1]) ELSE Ok(a[2]))
             ELSE IllTyped
      [] h = "merge"         -> IF IsDictV(x) /\ IsDictV(a[1])        \* {**input, **parameter}: the parameter wins
                                THEN Ok(Dv([k \in DOMAIN x.d \cup DOMAIN a[1].d |-> IF k \in DOMAIN a[1].d THEN a[1].d[k] ELSE x.d[k]]))
                                ELSE IllTyped
      [] h = "map_keys"      -> IF IsDictV(x) /\ a[1].t = "F"
                                THEN Ok(Dv([k2 \in {KeyFn(a[1].f, k) : k \in DOMAIN x.d} |->
                                             x.d[CHOOSE k \in DOMAIN x.d : KeyFn(a[1].f, k) = k2]]))
                                ELSE IllTyped
      [] h = "map_values"    -> IF IsDictV(x) /\ a[1].t = "F"
                                THEN (IF \A k \in DOMAIN x.d : FnApply(a[1].f, <<x.d[k]>>).ok
                                      THEN Ok(Dv([k \in DOMAIN x.d |-> FnApply(a[1].f, <<x.d[k]>>).v])) ELSE IllTyped)
                                ELSE IllTyped
      [] h = "map_items"     -> IF IntDict(x)                           \* (k, v) -> (k + "z", v + 1)
                                THEN Ok(Dv([k2 \in {KeyFn("kz", k) : k \in DOMAIN x.d} |->
                                             I(x.d[CHOOSE k \in DOMAIN x.d : KeyFn("kz", k) = k2].i + 1)]))
                                ELSE IllTyped
      [] h = "filter_keys"   -> IF IsDictV(x) /\ a[1].t = "F"
                                THEN Ok(Dv([k \in {j \in DOMAIN x.d : KeyPred(a[1].f, j)} |-> x.d[k]])) ELSE IllTyped
      [] h = "filter_values" -> IF IntDict(x) /\ a[1].t = "F"
                                THEN Ok(Dv([k \in {j \in DOMAIN x.d : Truthy(FnApply(a[1].f, <<x.d[j]>>).v)} |-> x.d[k]])) ELSE IllTyped
      [] h = "filter_items"  -> IF IntDict(x)                           \* keep (k, v) with k = "a" or v > 1
                                THEN Ok(Dv([k \in {j \in DOMAIN x.d : j = "a" \/ x.d[j].i > 1} |-> x.d[k]])) ELSE IllTyped
      [] h = "ensure"        -> LET r == FnApply(a[1].f, <<x>>) IN
                                IF ~r.ok THEN r ELSE IF Truthy(r.v) THEN Ok(x) ELSE Fail("Assertion", {})
      [] h = "instance_of"   -> Ok(BoolV(\E i \in 1 .. Len(a) : InstanceOf(a[i].f, x)))
      [] h = "call_method"   -> \* call_method("count", v)(list): number of occurrences (the arguments are constants)
                                IF x.t = "l" /\ a[1] = Str("count") THEN Ok(I(Cardinality({i \in 1 .. Len(x.l) : x.l[i] = a[2]}))) ELSE IllTyped
      [] h = "get_attribute" -> IF IsInt(x) /\ a[1] = Str("real") THEN Ok(x)
                                ELSE IF IsInt(x) /\ a[1] = Str("imag") THEN Ok(I(0)) ELSE IllTyped
      [] h = "partial"       -> \* partial(h3, a1, c=a2)(x) = h3(a1, x, c=a2): positional arguments first
                                Ok(Tv("h3", <<a[1], x, a[2]>>))

PVal(pm, o) ==
    CASE pm.mode = "const" -> Ok(pm.c)
      [] pm.mode = "opt" -> IF Has(pm.p, o) THEN Ok(Get(pm.p, o)) ELSE Fail("KeyNotFound", {pm.p})
      [] pm.mode = "fn" -> Ok(Fv(pm.f))

ParamG(s, o) ==
    LET rs == [i \in 1 .. Len(s.ps) |-> PVal(s.ps[i], o)] IN
    IF AllOk(rs) THEN Ok(Vals(rs))
    ELSE Fail("KeyNotFound", UNION {rs[i].keys : i \in {j \in 1 .. Len(rs) : ~rs[j].ok}})

\* the parameter of a step under options o: Ok(value) / missing key
Param(s, o) ==
    CASE s.k = "dec" -> IF Has(s.p, o) THEN Ok(Get(s.p, o))
                        ELSE IF ~IsAbsent(s.dflt) THEN Ok(s.dflt) ELSE Fail("KeyNotFound", {s.p})
      [] s.k = "helper" /\ s.mode = "opt" -> IF Has(s.p, o) THEN Ok(Get(s.p, o)) ELSE Fail("KeyNotFound", {s.p})
      [] s.k = "helper" /\ s.mode = "const" -> Ok(s.c)
      [] s.k = "helperG" -> ParamG(s, o)
      [] OTHER -> Ok(Nv)

StepApply(s, x, o) ==
    LET p == Param(s, o) IN
    IF ~p.ok THEN p
    ELSE CASE s.k = "dec" -> Ok(Tv(s.name, <<x, p.v>>))
           [] s.k = "plain" -> Ok(Tv(s.name, <<x>>))
           [] s.k = "helper" -> HelperApply(s.h, p.v, x)
           [] s.k = "helperG" -> HelperGApply(s.h, p.v, x)
           [] s.k = "empty" -> Ok(x)

\* all step parameters are evaluated when the pipeline is evaluated, before any step is applied
ParamsOk(steps, o) ==
    LET bad == {i \in 1 .. Len(steps) : ~Param(steps[i], o).ok} IN
    IF bad = {} THEN Ok(Nv) ELSE Fail("KeyNotFound", UNION {Param(steps[i], o).keys : i \in bad})

RECURSIVE Fold(_, _, _, _)
Fold(steps, i, x, o) ==
    IF i > Len(steps) THEN Ok(x)
    ELSE LET r == StepApply(steps[i], x, o) IN IF ~r.ok THEN r ELSE Fold(steps, i + 1, r.v, o)

Transform(term, x, o) ==
    LET steps == Flatten(term) pk == ParamsOk(steps, o) IN IF ~pk.ok THEN pk ELSE Fold(steps, 1, x, o)

StepKeyPaths(s) == IF s.k = "dec" \/ (s.k = "helper" /\ s.mode = "opt") THEN {s.p}
                   ELSE IF s.k = "helperG" THEN {s.ps[i].p : i \in {j \in 1 .. Len(s.ps) : s.ps[j].mode = "opt"}} ELSE {}
\* keys(): the option keys of the parameters that are present (a missing one without default fails)
KeysOfP(term, o) ==
    LET steps == Flatten(term) pk == ParamsOk(steps, o) IN
    IF ~pk.ok THEN pk ELSE [ok |-> TRUE, ks |-> {p \in UNION {StepKeyPaths(steps[i]) : i \in 1 .. Len(steps)} : Has(p, o)}]
\* explain(): every parameter key, present or not, unless a default decides it
ExplainP(term, o) ==
    LET steps == Flatten(term) IN
    UNION {{p \in StepKeyPaths(steps[i]) : Has(p, o) \/ steps[i].k # "dec" \/ IsAbsent(steps[i].dflt)} : i \in 1 .. Len(steps)}

Names(term) == LET steps == Flatten(term) IN
               [i \in 1 .. Len(steps) |-> IF steps[i].k \in {"helper", "helperG"} THEN steps[i].h ELSE steps[i].name]

-----------------------------------------------------------------------------
(* Laws (checked by TLC on the bounded term universe) *)
Assoc(a, b, c) == Flatten(Plus(Plus(a, b), c)) = Flatten(Plus(a, Plus(b, c)))
IdLeft(a) == Flatten(Plus(Leaf(EmptyP), a)) = Flatten(a)
IdRight(a) == Flatten(Plus(a, Leaf(EmptyP))) = Flatten(a)
Compose(l, r, x, o) ==
    LET whole == Transform(Plus(l, r), x, o)
        first == Transform(l, x, o) IN
    \* when every parameter of both halves can be evaluated, the whole is the composition
    (ParamsOk(Flatten(Plus(l, r)), o).ok) =>
        whole = (IF ~first.ok THEN first ELSE Transform(r, first.v, o))
=============================================================================
