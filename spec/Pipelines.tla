------------------------------ MODULE Pipelines ------------------------------
(***************************************************************************)
(* C13: pipelines denote the SEQUENCE of their steps; `+` is concatenation *)
(* with the empty pipeline as identity; transform folds the steps over the *)
(* input, evaluating every step parameter from the same options at         *)
(* evaluation time.  Steps: decorated steps with an option-valued          *)
(* parameter, plain callables, the empty pipeline, and the helper steps of *)
(* labrea.functions (each the corresponding Python operation with the      *)
(* documented operand order).                                              *)
(* Uninterpreted steps yield terms T(name, <<input, parameter>>), so a     *)
(* dropped, duplicated or reordered step is visible in the result.         *)
(***************************************************************************)
EXTENDS Values, Integers

Ok(v) == [ok |-> TRUE, v |-> v]
Fail(cls, keys) == [ok |-> FALSE, cls |-> cls, keys |-> keys]
IllTyped == Fail("IllTyped", {})

\* steps
Dec(name, p, dflt) == [k |-> "dec", name |-> name, p |-> p, dflt |-> dflt]      \* dflt = Absent: no default
Plain(name) == [k |-> "plain", name |-> name]
HelperC(h, c) == [k |-> "helper", h |-> h, mode |-> "const", c |-> c]           \* parameter given as a constant
HelperO(h, p) == [k |-> "helper", h |-> h, mode |-> "opt", p |-> p]             \* parameter read from option p
Helper0(h) == [k |-> "helper", h |-> h, mode |-> "none"]                        \* no parameter (negate, length, ...)
EmptyP == [k |-> "empty"]

Leaf(s) == [t |-> "leaf", s |-> s]
Plus(l, r) == [t |-> "plus", l |-> l, r |-> r]

RECURSIVE Flatten(_)
Flatten(term) ==
    IF term.t = "leaf" THEN (IF term.s.k = "empty" THEN <<>> ELSE <<term.s>>)
    ELSE Flatten(term.l) \o Flatten(term.r)

Q(n, m) == [t |-> "q", n |-> n, m |-> m]       \* the exact quotient n / m (Python true division)
IsInt(v) == v.t = "i"
IsSeq(v) == v.t \in {"l", "u"}
Elems(v) == IF v.t = "e" THEN v.e ELSE {v.l[i] : i \in 1 .. Len(v.l)}
SetV(s) == [t |-> "e", e |-> s]
BoolV(b) == [t |-> "b", b |-> b]
Mod(a, b) == a % b                             \* b > 0 in the universes used

\* helper h with evaluated parameter a applied to input x
HelperApply(h, a, x) ==
    CASE h = "add"           -> IF IsInt(x) /\ IsInt(a) THEN Ok(I(x.i + a.i))
                                ELSE IF x.t = "s" /\ a.t = "s" THEN Ok(Sv(x.s \o a.s))       \* input + parameter, in this order
                                ELSE IF x.t = "l" /\ a.t = "l" THEN Ok(Lv(x.l \o a.l))
                                ELSE IllTyped
      [] h = "subtract"      -> IF IsInt(x) /\ IsInt(a) THEN Ok(I(x.i - a.i)) ELSE IllTyped
      [] h = "multiply"      -> IF IsInt(x) /\ IsInt(a) THEN Ok(I(x.i * a.i)) ELSE IllTyped
      [] h = "left_multiply" -> IF IsInt(x) /\ IsInt(a) THEN Ok(I(a.i * x.i)) ELSE IllTyped
      [] h = "divide_by"     -> IF IsInt(x) /\ IsInt(a) /\ a.i # 0 THEN Ok(Q(x.i, a.i)) ELSE IllTyped
      [] h = "divide_into"   -> IF IsInt(x) /\ IsInt(a) /\ x.i # 0 THEN Ok(Q(a.i, x.i)) ELSE IllTyped
      [] h = "modulo"        -> IF IsInt(x) /\ IsInt(a) /\ a.i > 0 /\ x.i >= 0 THEN Ok(I(Mod(x.i, a.i))) ELSE IllTyped
      [] h = "eq"            -> Ok(BoolV(x = a))
      [] h = "ne"            -> Ok(BoolV(x # a))
      [] h = "gt"            -> IF IsInt(x) /\ IsInt(a) THEN Ok(BoolV(x.i > a.i)) ELSE IllTyped
      [] h = "ge"            -> IF IsInt(x) /\ IsInt(a) THEN Ok(BoolV(x.i >= a.i)) ELSE IllTyped
      [] h = "lt"            -> IF IsInt(x) /\ IsInt(a) THEN Ok(BoolV(x.i < a.i)) ELSE IllTyped
      [] h = "le"            -> IF IsInt(x) /\ IsInt(a) THEN Ok(BoolV(x.i <= a.i)) ELSE IllTyped
      [] h = "is_in"         -> IF IsSeq(a) THEN Ok(BoolV(x \in Elems(a))) ELSE IllTyped
      [] h = "is_not_in"     -> IF IsSeq(a) THEN Ok(BoolV(x \notin Elems(a))) ELSE IllTyped
      [] h = "contains"      -> IF IsSeq(x) THEN Ok(BoolV(a \in Elems(x))) ELSE IllTyped
      [] h = "does_not_contain" -> IF IsSeq(x) THEN Ok(BoolV(a \notin Elems(x))) ELSE IllTyped
      [] h = "concat"        -> IF IsSeq(x) /\ IsSeq(a) THEN Ok(Lv(x.l \o a.l)) ELSE IllTyped
      [] h = "append"        -> IF IsSeq(x) THEN Ok(Lv(Append(x.l, a))) ELSE IllTyped
      [] h = "union"         -> IF IsSeq(x) /\ IsSeq(a) THEN Ok(SetV(Elems(x) \cup Elems(a))) ELSE IllTyped
      [] h = "intersect"     -> IF IsSeq(x) /\ IsSeq(a) THEN Ok(SetV(Elems(x) \cap Elems(a))) ELSE IllTyped
      [] h = "difference"    -> IF IsSeq(x) /\ IsSeq(a) THEN Ok(SetV(Elems(x) \ Elems(a))) ELSE IllTyped
      [] h = "symmetric_difference" ->
             IF IsSeq(x) /\ IsSeq(a) THEN Ok(SetV((Elems(x) \ Elems(a)) \cup (Elems(a) \ Elems(x)))) ELSE IllTyped
      [] h = "get"           -> \* get(key)(container): container[key]
             IF IsSeq(x) /\ IsInt(a) THEN (IF a.i >= 0 /\ a.i < Len(x.l) THEN Ok(x.l[a.i + 1]) ELSE Fail("Lookup", {}))
             ELSE IllTyped
      [] h = "get_from"      -> \* get_from(container)(key): container[key]
             IF IsSeq(a) /\ IsInt(x) THEN (IF x.i >= 0 /\ x.i < Len(a.l) THEN Ok(a.l[x.i + 1]) ELSE Fail("Lookup", {}))
             ELSE IllTyped
      [] h = "negate"        -> IF IsInt(x) THEN Ok(I(0 - x.i)) ELSE IllTyped
      [] h = "length"        -> IF IsSeq(x) THEN Ok(I(Len(x.l))) ELSE IllTyped
      [] h = "is_none"       -> Ok(BoolV(x.t = "n"))
      [] h = "positive"      -> IF IsInt(x) THEN Ok(BoolV(x.i > 0)) ELSE IllTyped
      [] h = "even"          -> IF IsInt(x) /\ x.i >= 0 THEN Ok(BoolV(Mod(x.i, 2) = 0)) ELSE IllTyped

\* the parameter of a step under options o: Ok(value) / missing key
Param(s, o) ==
    CASE s.k = "dec" -> IF Has(s.p, o) THEN Ok(Get(s.p, o))
                        ELSE IF ~IsAbsent(s.dflt) THEN Ok(s.dflt) ELSE Fail("KeyNotFound", {s.p})
      [] s.k = "helper" /\ s.mode = "opt" -> IF Has(s.p, o) THEN Ok(Get(s.p, o)) ELSE Fail("KeyNotFound", {s.p})
      [] s.k = "helper" /\ s.mode = "const" -> Ok(s.c)
      [] OTHER -> Ok(Nv)

StepApply(s, x, o) ==
    LET p == Param(s, o) IN
    IF ~p.ok THEN p
    ELSE CASE s.k = "dec" -> Ok(Tv(s.name, <<x, p.v>>))
           [] s.k = "plain" -> Ok(Tv(s.name, <<x>>))
           [] s.k = "helper" -> HelperApply(s.h, p.v, x)
           [] s.k = "empty" -> Ok(x)

\* all step parameters are evaluated when the pipeline is evaluated, before any step is applied
ParamsOk(steps, o) ==
    LET bad == {i \in 1 .. Len(steps) : ~Param(steps[i], o).ok} IN
    IF bad = {} THEN Ok(Nv) ELSE Fail("KeyNotFound", UNION {Param(steps[i], o).keys : i \in bad})

RECURSIVE Fold(_, _, _, _)
Fold(steps, i, x, o) ==
    IF i > Len(steps) THEN Ok(x)
    ELSE LET r == StepApply(steps[i], x, o) IN IF ~r.ok THEN r ELSE Fold(steps, i + 1, r.v, o)

Transform(term, x, o) ==
    LET steps == Flatten(term) pk == ParamsOk(steps, o) IN IF ~pk.ok THEN pk ELSE Fold(steps, 1, x, o)

StepKeyPaths(s) == IF s.k = "dec" \/ (s.k = "helper" /\ s.mode = "opt") THEN {s.p} ELSE {}
\* keys(): the option keys of the parameters that are present (a missing one without default fails)
KeysOfP(term, o) ==
    LET steps == Flatten(term) pk == ParamsOk(steps, o) IN
    IF ~pk.ok THEN pk ELSE [ok |-> TRUE, ks |-> {p \in UNION {StepKeyPaths(steps[i]) : i \in 1 .. Len(steps)} : Has(p, o)}]
\* explain(): every parameter key, present or not, unless a default decides it
ExplainP(term, o) ==
    LET steps == Flatten(term) IN
    UNION {{p \in StepKeyPaths(steps[i]) : Has(p, o) \/ steps[i].k # "dec" \/ IsAbsent(steps[i].dflt)} : i \in 1 .. Len(steps)}

Names(term) == LET steps == Flatten(term) IN
               [i \in 1 .. Len(steps) |-> IF steps[i].k = "helper" THEN steps[i].h ELSE steps[i].name]

-----------------------------------------------------------------------------
(* Laws (checked by TLC on the bounded term universe) *)
Assoc(a, b, c) == Flatten(Plus(Plus(a, b), c)) = Flatten(Plus(a, Plus(b, c)))
IdLeft(a) == Flatten(Plus(Leaf(EmptyP), a)) = Flatten(a)
IdRight(a) == Flatten(Plus(a, Leaf(EmptyP))) = Flatten(a)
Compose(l, r, x, o) ==
    LET whole == Transform(Plus(l, r), x, o)
        first == Transform(l, x, o) IN
    \* when every parameter of both halves can be evaluated, the whole is the composition
    (ParamsOk(Flatten(Plus(l, r)), o).ok) =>
        whole = (IF ~first.ok THEN first ELSE Transform(r, first.v, o))
=============================================================================
