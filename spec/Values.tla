------------------------------- MODULE Values -------------------------------
(***************************************************************************)
(* The JSON-like value universe of option dictionaries, dotted-key lookup, *)
(* recursive merge and template resolution, transcribed from the functions *)
(* of the pinned `confectioner` package that labrea calls (get_dotted_key,  *)
(* dotted_key_exists, set_dotted_key, mix with its defaults, resolve).      *)
(*                                                                         *)
(* Values are tagged records; every sort has its own payload field so that *)
(* TLC never has to compare an integer with a record or a function:        *)
(*   [t|->"i",i|->n]  [t|->"b",b|->TRUE]  [t|->"n"] (None)                 *)
(*   [t|->"s",s|->tokens]  [t|->"l",l|->seq]  [t|->"d",d|->function]       *)
(*   [t|->"T",f|->body,a|->args]  the result of an uninterpreted callable  *)
(*   [t|->"a"] absent (never a value), [t|->"E",keys|->S] a failed lookup  *)
(* A string is a sequence of tokens: literal chunk, {KEY} reference,       *)
(* {:name:} parameter reference, escaped brace.                            *)
(***************************************************************************)
EXTENDS Naturals, Sequences, FiniteSets, TLC

I(n) == [t |-> "i", i |-> n]
Bv(b) == [t |-> "b", b |-> b]
Nv == [t |-> "n"]
Sv(toks) == [t |-> "s", s |-> TLCEval(toks)]
Lv(xs) == [t |-> "l", l |-> TLCEval(xs)]
Dv(f) == [t |-> "d", d |-> TLCEval(f)]      \* TLCEval: function values are stored in states fully evaluated
Tv(f, a) == [t |-> "T", f |-> f, a |-> TLCEval(a)]
Absent == [t |-> "a"]
Err(keys) == [t |-> "E", keys |-> keys]      \* missing reference(s): any one of `keys` may be reported

EmptyD == Dv([x \in {} |-> Nv])

\* tokens
Chunk(c) == [k |-> "c", c |-> c]
Ref(p) == [k |-> "r", p |-> p]               \* {A.B}
Par(n) == [k |-> "r", p |-> <<":" \o n \o ":">>]   \* {:n:} is a reference to the key ":n:"
EscL == [k |-> "el"]
EscR == [k |-> "er"]
Str(c) == Sv(<<Chunk(c)>>)                   \* a plain string

IsErr(v) == v.t = "E"
IsAbsent(v) == v.t = "a"

IndexOf(seg) ==      \* "0".."3" are list indices when the container is a list
    CASE seg = "0" -> 1 [] seg = "1" -> 2 [] seg = "2" -> 3 [] seg = "3" -> 4 [] OTHER -> 0

\* get_dotted_key: an index segment never matches a mapping, a name never matches a list
RECURSIVE Get(_, _)
Get(p, v) ==
    IF p = <<>> THEN v
    ELSE LET h == Head(p) IN
         IF v.t = "d"
         THEN IF IndexOf(h) = 0 /\ h \in DOMAIN v.d THEN Get(Tail(p), v.d[h]) ELSE Absent
         ELSE IF v.t = "l"
              THEN IF IndexOf(h) # 0 /\ IndexOf(h) <= Len(v.l) THEN Get(Tail(p), v.l[IndexOf(h)]) ELSE Absent
              ELSE Absent

Has(p, v) == ~IsAbsent(Get(p, v))

\* confectioner.mix(base, over) with dicts="merge", lists="overwrite": over wins, sections merge
RECURSIVE Mix(_, _)
Mix(a, b) ==
    Dv([k \in (DOMAIN a.d) \cup (DOMAIN b.d) |->
          IF k \notin DOMAIN b.d THEN a.d[k]
          ELSE IF b.d[k].t = "d" /\ k \in DOMAIN a.d /\ a.d[k].t = "d" THEN Mix(a.d[k], b.d[k])
          ELSE b.d[k]])

\* {path: v} as a nested dictionary (set_dotted_key into an empty dict)
RECURSIVE Nest(_, _)
Nest(p, v) == IF Len(p) = 1 THEN Dv([k \in {p[1]} |-> v]) ELSE Dv([k \in {p[1]} |-> Nest(Tail(p), v)])

SetPath(p, v, o) == Mix(o, Nest(p, v))

\* the dictionary restricted to a set of present paths (a list-indexed path keeps the whole list)
RECURSIVE RestrictTo(_, _, _)
RestrictTo(v, ps, pre) ==
    \* ps: set of paths relative to v that are to be kept; pre unused (kept for readability)
    IF <<>> \in ps \/ v.t # "d" THEN v
    ELSE LET heads == {Head(p) : p \in ps} IN
         Dv([k \in heads \cap DOMAIN v.d |-> RestrictTo(v.d[k], {Tail(p) : p \in {q \in ps : Head(q) = k}}, pre)])

Restrict(o, ps) == RestrictTo(o, ps, <<>>)

\* every leaf / section path present in a dictionary (sections included)
RECURSIVE PathsIn(_)
PathsIn(v) ==
    IF v.t # "d" THEN {<<>>}
    ELSE {<<>>} \cup UNION {{<<k>> \o p : p \in PathsIn(v.d[k])} : k \in DOMAIN v.d}

Present(o) == PathsIn(o) \ {<<>>}

-----------------------------------------------------------------------------
(* Strings *)

Cat(seqs) == \* concatenation of a sequence of sequences
    LET RECURSIVE C(_) C(i) == IF i > Len(seqs) THEN <<>> ELSE seqs[i] \o C(i + 1) IN C(1)

DigitStr(n) == ToString(n)

\* tokens of Python's str(v) / repr(v) for the value sorts templates may splice
RECURSIVE ReprToks(_)
StrToks(v) ==
    CASE v.t = "s" -> v.s
      [] v.t = "i" -> <<Chunk(DigitStr(v.i))>>
      [] v.t = "b" -> <<Chunk(IF v.b THEN "True" ELSE "False")>>
      [] v.t = "n" -> <<Chunk("None")>>
      [] v.t = "l" -> <<Chunk("[")>> \o
                      Cat([i \in 1 .. Len(v.l) |->
                              (IF i > 1 THEN <<Chunk(", ")>> ELSE <<>>) \o ReprToks(v.l[i])]) \o
                      <<Chunk("]")>>
      [] OTHER -> <<[k |-> "str", v |-> v]>>     \* "the string form of v" (terms, sections): rendered by the codec
ReprToks(v) == IF v.t = "s" THEN <<Chunk("'")>> \o v.s \o <<Chunk("'")>> ELSE StrToks(v)

RefsOf(toks) == {toks[i].p : i \in {j \in 1 .. Len(toks) : toks[j].k = "r"}}

Unescape(toks) ==
    [i \in 1 .. Len(toks) |->
        IF toks[i].k = "el" THEN Chunk("{") ELSE IF toks[i].k = "er" THEN Chunk("}") ELSE toks[i]]

\* confectioner.resolve(v, o): transitive substitution; Err(keys) when a reference is missing
RECURSIVE Resolve(_, _)
ResolveSeq(xs, o) ==
    LET rs == [i \in 1 .. Len(xs) |-> Resolve(xs[i], o)]
        bad == {i \in 1 .. Len(xs) : IsErr(rs[i])} IN
    IF bad = {} THEN Lv(rs) ELSE rs[CHOOSE i \in bad : \A j \in bad : i <= j]

Resolve(v, o) ==
    CASE v.t = "s" ->
            LET toks == v.s
                refs == RefsOf(toks) IN
            IF refs = {} THEN Sv(Unescape(toks))
            ELSE LET missing == {p \in refs : ~Has(p, o)} IN
                 IF missing # {} THEN Err(missing)
                 ELSE IF Len(toks) = 1
                      THEN Resolve(Get(toks[1].p, o), o)         \* "{KEY}" keeps the referenced type
                      ELSE Resolve(Sv(Cat([i \in 1 .. Len(toks) |->
                                            IF toks[i].k = "r" THEN StrToks(Get(toks[i].p, o))
                                            ELSE <<toks[i]>>])), o)
      [] v.t = "l" -> ResolveSeq(v.l, o)
      [] v.t = "d" ->
            LET rs == [k \in DOMAIN v.d |-> Resolve(v.d[k], o)]
                bad == {k \in DOMAIN v.d : IsErr(rs[k])} IN
            IF bad = {} THEN Dv(rs) ELSE Err(UNION {rs[k].keys : k \in bad})
      [] OTHER -> v

\* every path the resolution of v looks up, transitively (absent ones included)
RECURSIVE RefsTrans(_, _)
RefsTrans(v, o) ==
    CASE v.t = "s" -> UNION {{p} \cup (IF Has(p, o) THEN RefsTrans(Get(p, o), o) ELSE {}) : p \in RefsOf(v.s)}
      [] v.t = "l" -> UNION {RefsTrans(v.l[i], o) : i \in 1 .. Len(v.l)}
      [] v.t = "d" -> UNION {RefsTrans(v.d[k], o) : k \in DOMAIN v.d}
      [] OTHER -> {}

\* the same, looking only inside strings that are themselves the value (what labrea's
\* Option.keys documents: "keys of a templated value") -- used to state the finding precisely
Templated(v) == RefsTrans(v, EmptyD) # {}

=============================================================================
