------------------------------- MODULE MC_Expr -------------------------------
(***************************************************************************)
(* Generation / model-checking wrapper for the expression machine.         *)
(* A *family* fixes which node kinds may be added, over which universes,   *)
(* and which option dictionaries the root is observed under.  TLC explores *)
(* every graph of the family (construction order = children first) and     *)
(* every dictionary, checks the semantic invariants on each, and exports   *)
(* one EDGE line per transition for the conformance replay.                *)
(***************************************************************************)
EXTENDS Labrea, Json, IOUtils

CONSTANTS
    Kinds,        \* node kinds that may be added
    RootKinds,    \* kinds the root (last node) may have -- used to shard runs
    Paths,        \* option paths nodes may refer to
    Consts,       \* constants for val nodes
    Tmpls,        \* token sequences for tmpl nodes / templated defaults
    Fns,          \* callable ids for apply
    Bodies,       \* callable ids for fnapp (dataset bodies)
    DispVals,     \* values switch / bind / overload tables are keyed on
    Preds,        \* predicate names for pred nodes
    Presets,      \* dictionaries usable as pre-set / default options
    MapPaths,     \* paths a Map may iterate over
    DispPaths,    \* paths a later set_dispatch may name
    ParamKinds,   \* node kinds a template parameter may be
    Cbs,          \* dataset callbacks ("" = none)
    EffSets,      \* effect chains (sequences of effect ids) a dataset may have
    Caches,       \* cache kinds of datasets: "mem" (MemoryCache), "none" (NoCache)
    CollKinds,    \* which collection constructors a coll node may use
    NShards, Shard,  \* generation is split over NShards TLC processes: this one observes graphs whose hash is Shard
    MinNodes,     \* calls are made on graphs of at least this many nodes (>= 1)
    BothPresets,  \* TRUE: a dataset may have pre-set AND default options at once
    KindSeq,      \* <<>>: any kind may come next; else node i has kind KindSeq[i] (a family of one fixed shape)
    PlainOpts,    \* TRUE: options have neither default nor domain (keeps large DAG families small)
    Sharing,      \* TRUE: a node may be used by several parents (DAGs); FALSE: trees
    Leaves,       \* the dictionary universe: sequence of [p |-> path, vals |-> set of values]
    Family        \* name, for the export

E == 1 .. Len(nodes)
Used == UNION {ChildrenOf(nodes[j]) : j \in E}
Free == IF Sharing THEN E ELSE E \ Used      \* nodes that may still become a child
OptFree == Free \cup {0}

KindOf(i) == IF i = 0 THEN "none" ELSE nodes[i].k
IsScalarish(i) == KindOf(i) \in {"val", "opt", "tmpl", "apply", "fnapp", "ds", "cached", "switch", "bind", "case", "coalesce", "with"}

Distinct(s) == \A i, j \in DOMAIN s : i # j => s[i] # s[j]

\* tables keyed on DispVals (a sequence): each dispatch value maps to a free node or to nothing
Tables == {t \in [1 .. Len(DispVals) -> OptFree] : \E i \in 1 .. Len(DispVals) : t[i] # 0}
TableSeq(t) ==
    LET RECURSIVE S(_) S(i) == IF i > Len(DispVals) THEN <<>>
                               ELSE (IF t[i] = 0 THEN <<>> ELSE <<[v |-> DispVals[i], n |-> t[i]]>>) \o S(i + 1)
    IN S(1)

ParamNames(s) == {LET k == s[i].p[1] IN k : i \in {j \in 1 .. Len(s) : s[j].k = "r" /\ Len(s[j].p) = 1 /\ s[j].p[1] \in {":p:", ":q:"}}}
ParamName(k) == IF k = ":p:" THEN "p" ELSE "q"

Cands ==
    (IF want = "val" THEN {[k |-> "val", v |-> c] : c \in Consts} ELSE {})
    \cup (IF want = "allopts" THEN {[k |-> "allopts"]} ELSE {})
    \cup (IF want = "opt"
          THEN {[k |-> "opt", p |-> p, d |-> d, dom |-> dm] :
                    p \in Paths, d \in (IF PlainOpts THEN {0} ELSE OptFree),
                    dm \in {0} \cup (IF PlainOpts THEN {} ELSE {e \in Free : KindOf(e) = "pred" \/ (KindOf(e) = "val" /\ nodes[e].v.t = "l")})}
          ELSE {})
    \cup (IF want = "pred"
          THEN {[k |-> "pred", pred |-> pr, arg |-> a] : pr \in Preds, a \in {e \in Free : KindOf(e) \in {"val", "opt"}}}
          ELSE {})
    \cup (IF want = "tmpl"
          THEN UNION {{[k |-> "tmpl", s |-> s,
                        ps |-> IF ParamNames(s) = {} THEN <<>>
                               ELSE IF ParamNames(s) = {":p:"} THEN <<[name |-> "p", n |-> a]>>
                               ELSE <<[name |-> "p", n |-> a], [name |-> "q", n |-> b]>>] :
                         a \in (IF ParamNames(s) = {} THEN {0} ELSE {e \in Free : KindOf(e) \in ParamKinds}),
                         b \in (IF ":q:" \in ParamNames(s) THEN {e \in Free : KindOf(e) \in ParamKinds} ELSE {0})} : s \in Tmpls}
          ELSE {})
    \cup (IF want = "apply"
          THEN {[k |-> "apply", src |-> s, f |-> f, fp |-> fp] :
                    s \in Free, f \in Fns, fp \in {0} \cup {e \in Free : KindOf(e) \in {"ds", "fnapp", "opt"}}}
          ELSE {})
    \cup (IF want = "bind"
          THEN {[k |-> "bind", src |-> s, lk |-> TableSeq(t), other |-> ot] : s \in Free, t \in Tables, ot \in OptFree}
          ELSE {})
    \cup (IF want = "switch"
          THEN {[k |-> "switch", d |-> s, lk |-> TableSeq(t), dflt |-> ot] : s \in Free, t \in Tables, ot \in OptFree}
          ELSE {})
    \cup (IF want = "case"
          THEN {[k |-> "case", d |-> s, cases |-> <<[c |-> c1, n |-> n1]>>, dflt |-> ot] :
                    s \in Free, c1 \in {e \in Free : KindOf(e) = "pred"}, n1 \in Free, ot \in OptFree}
               \cup {[k |-> "case", d |-> s, cases |-> <<[c |-> c1, n |-> n1], [c |-> c2, n |-> n2]>>, dflt |-> 0] :
                    s \in Free, c1 \in {e \in Free : KindOf(e) = "pred"}, n1 \in Free,
                    c2 \in {e \in Free : KindOf(e) = "pred"}, n2 \in Free}
          ELSE {})
    \cup (IF want = "coalesce"
          THEN {[k |-> "coalesce", ms |-> <<a, b>>] : a \in Free, b \in Free}
               \cup {[k |-> "coalesce", ms |-> <<a, b, c>>] : a \in Free, b \in Free, c \in Free}
          ELSE {})
    \cup (IF want = "coll"
          THEN {[k |-> "coll", c |-> c, ms |-> <<a, b>>, names |-> <<"x", "y">>] :
                    c \in CollKinds, a \in Free, b \in Free}
               \cup {[k |-> "coll", c |-> c, ms |-> <<a>>, names |-> <<"x">>] : a \in Free, c \in CollKinds \cap {"list", "dict"}}
               \cup {[k |-> "coll", c |-> "dict", ms |-> <<a, b, c3>>, names |-> <<"x", "y", "z">>] :
                         a \in Free, b \in Free, c3 \in (IF "dict" \in CollKinds /\ "list" \notin CollKinds THEN Free ELSE {})}
          ELSE {})
    \cup (IF want = "map"
          THEN {[k |-> "map", inner |-> i, its |-> <<[p |-> p, n |-> a]>>] : i \in Free, p \in MapPaths, a \in Free}
               \cup {[k |-> "map", inner |-> i, its |-> <<[p |-> p, n |-> a], [p |-> q, n |-> b]>>] :
                        i \in Free, p \in MapPaths, q \in MapPaths, a \in Free, b \in Free}
          ELSE {})
    \cup (IF want = "with"
          THEN {[k |-> "with", inner |-> i, q |-> q, force |-> f] : i \in Free, q \in Presets, f \in BOOLEAN}
          ELSE {})
    \cup (IF want = "cached" THEN {[k |-> "cached", inner |-> i] : i \in Free} ELSE {})
    \cup (IF want = "logged" THEN {[k |-> "logged", inner |-> i, first |-> f] : i \in Free, f \in BOOLEAN} ELSE {})
    \cup (IF want = "ds"
          THEN {[k |-> "ds", dflt |-> f, disp |-> dp, tab |-> IF dp = 0 THEN 0 ELSE Len(tabs) + 1,
                 q |-> q, dd |-> dd, cb |-> cb, effs |-> ef, effoff |-> FALSE, cache |-> c] :
                    f \in {e \in Free : KindOf(e) = "fnapp"} \cup (IF DispVals = <<>> THEN {} ELSE {0}),
                    dp \in (IF DispVals = <<>> THEN {0} ELSE {0} \cup {e \in Free : KindOf(e) \in {"opt", "ds"}}),
                    q \in Presets \cup {EmptyD}, dd \in Presets \cup {EmptyD}, cb \in Cbs, ef \in EffSets, c \in Caches}
          ELSE {})
    \cup (IF want = "dsof"
          THEN {[k |-> "dsof", base |-> b, q2 |-> q, mode |-> m] :
                    b \in {e \in E : KindOf(e) \in {"ds", "dsof"}}, q \in Presets, m \in {"force", "default"}}
          ELSE {})
    \cup (IF want = "fnapp"
          THEN {[k |-> "fnapp", f |-> f, args |-> <<>>] : f \in Bodies}
               \cup {[k |-> "fnapp", f |-> f, args |-> <<a>>] : f \in Bodies, a \in Free}
               \cup {[k |-> "fnapp", f |-> f, args |-> <<a, b>>] : f \in Bodies, a \in Free, b \in Free}
          ELSE {})

\* child slots as a sequence (0 = empty slot)
ChildSlots(nd) ==
    CASE nd.k \in {"val", "allopts"} -> <<>>
      [] nd.k = "opt" -> <<nd.d, nd.dom>>
      [] nd.k = "pred" -> <<nd.arg>>
      [] nd.k = "tmpl" -> [i \in 1 .. Len(nd.ps) |-> nd.ps[i].n]
      [] nd.k = "apply" -> <<nd.src, nd.fp>>
      [] nd.k = "bind" -> <<nd.src, nd.other>> \o [i \in 1 .. Len(nd.lk) |-> nd.lk[i].n]
      [] nd.k = "switch" -> <<nd.d, nd.dflt>> \o [i \in 1 .. Len(nd.lk) |-> nd.lk[i].n]
      [] nd.k = "case" -> <<nd.d, nd.dflt>> \o Cat([i \in 1 .. Len(nd.cases) |-> <<nd.cases[i].c, nd.cases[i].n>>])
      [] nd.k \in {"coalesce", "coll"} -> nd.ms
      [] nd.k = "map" -> <<nd.inner>> \o [i \in 1 .. Len(nd.its) |-> nd.its[i].n]
      [] nd.k \in {"with", "cached", "logged"} -> <<nd.inner>>
      [] nd.k = "ds" -> <<nd.dflt, nd.disp>>
      [] nd.k = "dsof" -> <<>>
      [] nd.k = "fnapp" -> nd.args

NonZero(s) == LET RECURSIVE F(_) F(i) == IF i > Len(s) THEN <<>> ELSE (IF s[i] = 0 THEN <<>> ELSE <<s[i]>>) \o F(i + 1) IN F(1)

WellFormed(nd) ==
    /\ (~Sharing => Distinct(NonZero(ChildSlots(nd))))
    /\ (nd.k = "case" => Distinct(<<nd.d>> \o [i \in 1 .. Len(nd.cases) |-> nd.cases[i].n]))
    /\ (nd.k = "ds" => (nd.dflt # 0 \/ nd.disp # 0) /\ (nd.q = EmptyD \/ nd.dd = EmptyD \/ (BothPresets /\ nd.q # nd.dd)))
    /\ (nd.k = "map" => Distinct([i \in 1 .. Len(nd.its) |-> nd.its[i].p]) /\ nd.inner \notin {nd.its[i].n : i \in 1 .. Len(nd.its)})

\* the dictionaries: every *relevant* leaf of the universe is absent or takes one of its values.
\* A leaf is relevant to a graph if the graph mentions its path (or a prefix / extension of
\* it), if a value of a relevant leaf refers to it, or if it is marked `extra` (the
\* never-mentioned key every dictionary universe contains).
IsPrefix(a, b) == Len(a) <= Len(b) /\ SubSeq(b, 1, Len(a)) = a
Related(a, b) == IsPrefix(a, b) \/ IsPrefix(b, a)
LeafRefs(i) == UNION {RefsTrans(v, EmptyD) : v \in Leaves[i].vals}
RECURSIVE RelClosure(_, _)
RelClosure(ms, fuel) ==
    LET rel == {i \in 1 .. Len(Leaves) : Leaves[i].extra \/ \E m \in ms : Related(Leaves[i].p, m)}
        ms2 == ms \cup UNION {LeafRefs(i) : i \in rel} IN
    IF fuel = 0 \/ ms2 = ms THEN rel ELSE RelClosure(ms2, fuel - 1)

RECURSIVE DictsFrom(_, _)
DictsFrom(i, rel) ==
    IF i > Len(Leaves) THEN {EmptyD}
    ELSE LET rest == DictsFrom(i + 1, rel) IN
         IF i \notin rel THEN rest
         ELSE rest \cup {SetPath(Leaves[i].p, v, d) : v \in Leaves[i].vals, d \in rest}
DictsFor(ms) == DictsFrom(1, RelClosure(ms, 4))
Dicts == DictsFor(Mentions(Root))

KindCode(k) ==
    CASE k = "val" -> 1 [] k = "opt" -> 2 [] k = "pred" -> 3 [] k = "tmpl" -> 4 [] k = "apply" -> 5 [] k = "bind" -> 6
      [] k = "switch" -> 7 [] k = "case" -> 8 [] k = "coalesce" -> 9 [] k = "coll" -> 10 [] k = "map" -> 11
      [] k = "with" -> 12 [] k = "cached" -> 13 [] k = "ds" -> 14 [] k = "dsof" -> 15 [] k = "fnapp" -> 16 [] k = "logged" -> 18 [] OTHER -> 17
RECURSIVE SumSeq(_, _)
SumSeq(s, i) == IF i > Len(s) THEN 0 ELSE s[i] + SumSeq(s, i + 1)
GraphHash == SumSeq([i \in 1 .. Len(nodes) |-> i * KindCode(nodes[i].k) + SumSeq(ChildSlots(nodes[i]), 1)], 1)

MCNext ==
    \/ \E k \in Kinds : (KindSeq = <<>> \/ (Len(nodes) < Len(KindSeq) /\ KindSeq[Len(nodes) + 1] = k)) /\ Choose(k)
    \/ want # "none" /\ \E nd \in Cands : WellFormed(nd) /\ Add(nd)
    \/ /\ DispVals # <<>> /\ want = "none" /\ cur = NoDict
       /\ \E d \in E, i \in 1 .. Len(DispVals), impl \in (E \ Used) :
             /\ nodes[d].k = "ds" /\ nodes[d].tab # 0 /\ impl # d /\ KindOf(impl) \in {"fnapp", "ds", "val", "opt"}
             \* one implementation may serve several aliases of the same dataset (a list alias), not two datasets
             /\ ~(\E t \in DOMAIN tabs : t # nodes[d].tab /\ \E e \in 1 .. Len(tabs[t]) : tabs[t][e].n = impl)
             \* before the first call an alias is registered once; between calls a registered alias may be
             \* registered again (the later registration wins)
             /\ LET taken == \E e \in 1 .. Len(tabs[nodes[d].tab]) : tabs[nodes[d].tab][e].v = DispVals[i]
                    lateRegs == {h \in 1 .. Len(hist) : hist[h].a = "Register"} IN
                /\ (phase = "build" => ~taken)
                /\ (phase = "calls" => Cardinality(lateRegs) < 2 /\ (taken => \A h \in lateRegs : hist[h].prev = 0))
             /\ Register(d, DispVals[i], impl)
    \/ /\ LateRegister /\ Cardinality({h \in 1 .. Len(hist) : hist[h].a = "SetDispatch"}) < 1
       \* (to keep the exhaustive runs small: only directly before the last call of a history)
       /\ Cardinality({h \in 1 .. Len(hist) : hist[h].a = "Observe"}) = MaxHist - 1
       /\ \E d \in E, p \in DispPaths : SetDispatch(d, p)
    \/ Len(nodes) >= MinNodes /\ KindOf(Root) \in RootKinds /\ (RequireComplete => Complete) /\ cur = NoDict /\ want = "none"
          /\ (NShards > 1 => GraphHash % NShards = Shard)
          /\ \E o \in Dicts : Pick(o)
    \/ Observe

MCSpec == LInit /\ [][MCNext]_lvars

MCView == labs

-----------------------------------------------------------------------------
(* Semantic invariants, checked on every (graph, dictionary) of the family *)

\* evaluated in the state where the dictionary of the next call has been picked: in exhaustive
\* mode every (graph, dictionary) of the family passes through such a state, in simulation mode
\* the sampled ones do
AllObs(P(_, _)) == (cur # NoDict) => P(Root, cur)

\* C03: keys() reports present keys only, and is sufficient
KeysPresentOnlyAt(n, o) == LET k == KeysOf(n, o) IN k.ok => \A p \in k.ks : Has(p, o)
KeysSufficientAt(n, o) ==
    LET k == KeysOf(n, o) IN
    (k.ok /\ ~KeyBlind(n, o)) => LET r == Restrict(o, k.ks) IN
            ~KeyBlind(n, r) => /\ Eval(n, r) = Eval(n, o)
                               /\ KeysOf(n, r) = k
\* C10: validate passing guarantees no missing-option failure
ValidateGuardsAt(n, o) == (Validate(n, o).ok /\ ~Swallows(n, o)) => LET e == Eval(n, o) IN e.ok \/ e.cls # "KeyNotFound"
\* C10: keys and validate fail together for missing options
\* C11: explain covers keys; absent explained keys are exactly what is missing
\* C10: for total bodies and in-domain values, validate / keys / evaluate succeed or fail together
Benign(r) == r.ok \/ r.cls \notin {"User", "Domain", "IllTyped"}
AgreeAt(n, o) ==
    LET e == Eval(n, o) v == Validate(n, o) k == KeysOf(n, o) IN
    (Benign(e) /\ Benign(v) /\ Benign(k) /\ ~Swallows(n, o)) => (e.ok = v.ok /\ v.ok = k.ok)
ExplainCoversKeysAt(n, o) ==
    LET x == Explain(n, o) k == KeysOf(n, o) IN (x.ok /\ k.ok) => k.ks \subseteq x.ks
ExplainNamesMissingAt(n, o) ==
    LET x == Explain(n, o) v == Validate(n, o) IN
    x.ok => /\ ({p \in x.ks : ~Has(p, o)} = {} => (v.ok \/ v.cls # "KeyNotFound"))
            /\ ({p \in x.ks : ~Has(p, o)} # {} => ~v.ok)
            /\ (~v.ok /\ v.cls = "KeyNotFound" => v.keys \cap x.ks # {})
ExplainFailsOnlyInsufficientAt(n, o) == LET x == Explain(n, o) IN x.ok \/ x.cls \in {"Insufficient", "User", "IllTyped"}

KeysPresentOnly == AllObs(KeysPresentOnlyAt)
KeysSufficient == AllObs(KeysSufficientAt)
ValidateGuards == AllObs(ValidateGuardsAt)
Agree == AllObs(AgreeAt)
ExplainCoversKeys == AllObs(ExplainCoversKeysAt)
ExplainNamesMissing == AllObs(ExplainNamesMissingAt)
ExplainFailsOnlyInsufficient == AllObs(ExplainFailsOnlyInsufficientAt)

-----------------------------------------------------------------------------
(* Universes of the families (cfg files substitute these for the constants) *)
pA == <<"A">>  pB == <<"B">>  pC == <<"C">>  pSX == <<"S", "X">>  pSY == <<"S", "Y">>  pL1 == <<"L", "1">>
NoRaises == {}
SK_all == {"val", "allopts", "opt", "pred", "tmpl", "apply", "bind", "switch", "case", "coalesce", "coll", "map", "with", "cached", "ds", "fnapp", "logged"}
SK_leafish == {"opt", "val", "pred", "fnapp", "tmpl", "allopts"}
SK_val == {"val"}  SK_opt == {"opt"}  SK_pred == {"pred"}  SK_tmpl == {"tmpl"}  SK_apply == {"apply"}  SK_bind == {"bind"}
SK_switch == {"switch"}  SK_case == {"case"}  SK_coalesce == {"coalesce"}  SK_coll == {"coll"}  SK_map == {"map"}
SK_with == {"with"}  SK_dsof == {"dsof"}  SK_wrap == {"with", "ds", "dsof"}  SK_cached == {"cached"}  SK_ds == {"ds"}  SK_fnapp == {"fnapp"}  SK_logged == {"logged"}  SK_applyfn == {"apply", "fnapp"}
None0 == {}
NoSeq == <<>>

\* family "options" (C04, C09): Option with every default form and domain, templates
FO_Kinds == {"val", "opt", "tmpl", "pred", "fnapp"}
FO_Root == {"opt", "tmpl"}
FO_Paths == {pA, pSX, pL1, <<"D">>}
FO_Consts == {I(0), I(1), Nv, Str("x"), Lv(<<I(1), Str("x")>>)}
FO_Tmpls == {<<Chunk("t"), Ref(pB)>>, <<Ref(pA), Chunk("-"), Ref(pSX)>>, <<Chunk("p"), Par("p")>>, <<EscL, Ref(pB), EscR>>,
             <<EscL, Chunk("lit"), EscR>>}
FO_Bodies == {"f"}
FO_Preds == {"eq", "truthy"}
FO_Leaves == <<[p |-> pA, vals |-> {I(0), I(1), Bv(FALSE), Nv, Sv(<<>>), Str("x"), Sv(<<Ref(pB)>>), Sv(<<Chunk("x"), Ref(pB)>>), Lv(<<>>), Lv(<<I(0), Sv(<<Ref(pB)>>)>>)}, extra |-> FALSE],
               \* D is read by Option('D') only (never spliced into a template: str() of a section contains braces):
               \* templated strings inside a section, inside a section in a list, inside a nested list
               [p |-> <<"D">>, vals |-> {Dv([k \in {"U"} |-> Sv(<<Ref(pB)>>)]), Lv(<<Dv([k \in {"U"} |-> Sv(<<Ref(pB)>>)])>>),
                                         Lv(<<Lv(<<Sv(<<Chunk("x"), Ref(pB)>>)>>)>>)}, extra |-> FALSE],
               [p |-> pB, vals |-> {I(1), Str("y"), Sv(<<Ref(pC)>>)}, extra |-> FALSE],
               [p |-> pC, vals |-> {I(0)}, extra |-> FALSE],
               [p |-> pSX, vals |-> {I(1), Sv(<<Ref(pB)>>)}, extra |-> FALSE],
               [p |-> pSY, vals |-> {I(0)}, extra |-> FALSE],
               [p |-> <<"L">>, vals |-> {Lv(<<I(0), I(1)>>), Lv(<<I(0)>>)}, extra |-> FALSE],
               [p |-> <<"Z">>, vals |-> {I(7)}, extra |-> TRUE]>>

\* family "tmplparams" (C09, C03): a template parameter that is itself a wrapper pinning a key the text reads
FTP_Kinds == {"opt", "with", "tmpl"}
FTP_Paths == {pA, pB}
FTP_Tmpls == {<<Ref(pA), Chunk("-"), Par("p")>>, <<Par("p"), Ref(pB)>>, <<Ref(pSX), Chunk("-")>>}
PK_Default == {"val", "opt", "with"}
\* ... a parameter may itself be a Template (with a parameter of the same name: each template has its own)
FTP_ParamKinds == {"opt", "with", "tmpl"}
FTP_Presets == {Dv([k \in {"B"} |-> I(5)]), Dv([k \in {"C"} |-> I(6)])}
FTP_Leaves == <<[p |-> pA, vals |-> {I(1), Sv(<<Ref(pB)>>), Sv(<<Chunk("x"), Ref(pC)>>)}, extra |-> FALSE],
                [p |-> pB, vals |-> {I(1), I(2), Sv(<<Ref(pC)>>)}, extra |-> FALSE],
                [p |-> pC, vals |-> {I(3), I(4)}, extra |-> FALSE],
                \* a templated value referring to a templated sibling of the same top-level section
                [p |-> pSX, vals |-> {Sv(<<Ref(pSY)>>)}, extra |-> FALSE],
                [p |-> pSY, vals |-> {Sv(<<Ref(pB)>>), I(1)}, extra |-> FALSE]>>

\* family "combinators" (C05, C06, C03, C10, C11): every combinator over options / constants / bodies
\* (the string in these universes is "1": it prints like the integer 1 but is a different value and a different key)
FC_Kinds == {"val", "opt", "allopts", "pred", "apply", "bind", "switch", "case", "coalesce", "coll", "map", "fnapp"}
FC_Paths == {pA, pB}
FC_Consts == {I(1), Str("1"), Lv(<<I(0), I(1)>>)}
FC_Fns == {"g"}
FC_Bodies == {"f"}
FC_Disp == <<I(1), Str("1")>>
FC_Preds == {"eq", "truthy"}
FC_MapPaths == {pA, pSX}
FC_Leaves == <<[p |-> pA, vals |-> {I(0), I(1), Str("1"), Lv(<<I(0), I(1)>>)}, extra |-> FALSE],
               [p |-> pB, vals |-> {I(1), Str("1"), Lv(<<Str("1")>>), Nv}, extra |-> FALSE],
               [p |-> pSX, vals |-> {I(1)}, extra |-> FALSE],
               [p |-> <<"Z">>, vals |-> {I(7)}, extra |-> TRUE]>>

\* family "presets" (C08): pre-set / default option wrappers and dataset options, nested
AllColl == {"iter", "list", "tuple", "set", "dict"}
DictOnly == {"dict"}
DictIter == {"dict", "iter"}
NoCb == {""}
NoEff == {<<>>}
MemOnly == {"mem"}
FP_Kinds == {"val", "opt", "with", "ds", "dsof", "fnapp", "coll"}
FP_Paths == {pA, pSX, pSY, <<"S">>}
FP_Consts == {I(5)}
FP_Bodies == {"f"}
FP_Presets == {Dv([k \in {"A"} |-> I(9)]),
               Dv([k \in {"S"} |-> Dv([j \in {"X"} |-> I(8)])]),
               Dv([k \in {"S", "A"} |-> IF k = "A" THEN I(7) ELSE Dv([j \in {"Y"} |-> I(6)])])}
FP_Cbs == {"", "cb"}
FP_Effs == {<<>>, <<"e1">>}
FP_Leaves == <<[p |-> pA, vals |-> {I(0), I(1)}, extra |-> FALSE],
               [p |-> pSX, vals |-> {I(1), I(2)}, extra |-> FALSE],
               [p |-> pSY, vals |-> {I(0), I(3)}, extra |-> FALSE],
               [p |-> <<"S", "W">>, vals |-> {I(4)}, extra |-> TRUE]>>

\* family "caching" (C01, C02, C12, C16, C17): datasets / cached nodes over the combinators, DAGs
FK_Kinds == {"val", "opt", "pred", "fnapp", "ds", "dsof", "cached", "switch", "case", "bind", "coalesce", "with", "coll", "map", "apply"}
FK_Preds == {"eq"}
FG_Kinds == {"val", "opt", "fnapp", "ds", "dsof", "cached", "switch", "coalesce", "with", "coll", "map", "apply"}
FK_KindsB == {"opt", "fnapp", "ds", "cached", "with"}
FK_Paths == {pA, pB, pSX, <<"S">>}
FK_Consts == {I(1), Lv(<<I(0), I(1)>>)}
FK_Fns == {"g"}
FK_Bodies == {"f", "none"}
FK_Disp == <<I(1), Str("1")>>
FK_Presets == {Dv([k \in {"A", "S"} |-> IF k = "A" THEN I(9) ELSE Dv([j \in {"X"} |-> I(8)])]), Dv([k \in {"A"} |-> I(4)])}
FK_Cbs == {"cb", "none"}      \* the callback "none" returns None: a stored None must be served like any other value
FK_BodiesB == {"f"}
FK_Effs == {<<>>, <<"e1">>}
FKL_Effs == {<<>>, <<"le">>, <<"e1", "le">>}      \* "le": a LogEffect (family logeffects, C16)
FK_Caches == {"mem", "none"}
FK_MapPaths == {pA, pSX}
FK_Leaves == <<[p |-> pA, vals |-> {I(1), Str("1")}, extra |-> FALSE],
               [p |-> pB, vals |-> {I(1), I(2)}, extra |-> FALSE],
               [p |-> pSX, vals |-> {I(1), I(2)}, extra |-> FALSE],
               [p |-> <<"Z">>, vals |-> {I(7)}, extra |-> TRUE]>>

\* family "failing" (C12): user callables that raise on chosen inputs
FR_Kinds == {"opt", "pred", "val", "tmpl", "fnapp", "ds", "apply", "switch", "bind", "case", "coalesce", "cached", "coll"}
FR_Tmpls == {<<Chunk("t"), Ref(pB)>>}
FR_Preds == {"raise", "eq"}
FR_Consts == {I(1)}
FR_Paths == {pA, pB}
FR4_Kinds == {"opt", "fnapp", "coalesce", "cached"}
FR4_Paths == {pB}
FR_Fns == {"g"}
FR_Bodies == {"f"}
FR_Disp == <<I(1), I(2)>>
FR_Cbs == {"", "cb"}
FR_Effs == {<<>>, <<"e1">>}
FR_Raises == {<<"f", <<I(1)>>>>, <<"f", <<>>>>, <<"g", <<I(2)>>>>, <<"g", <<Tv("f", <<I(2)>>)>>>>,
              <<"cb", <<Tv("f", <<I(3)>>)>>>>, <<"e1", <<Tv("f", <<I(0)>>)>>>>}
FR_Leaves == <<[p |-> pA, vals |-> {I(0), I(1), I(2), I(3), Sv(<<Ref(pB)>>)}, extra |-> FALSE],
               [p |-> pB, vals |-> {I(1), I(2)}, extra |-> FALSE],
               [p |-> <<"Z">>, vals |-> {I(7)}, extra |-> TRUE]>>

\* family "dispatch" (C07): datasets with a dispatch, overloads registered before and between calls
FD_Kinds == {"opt", "val", "fnapp", "ds"}
FD_KindsB == {"opt", "fnapp", "ds"}
FD_CbsB == {"cb"}
FD_LeavesB == <<[p |-> <<"K">>, vals |-> {I(1), I(2)}, extra |-> FALSE], [p |-> <<"J">>, vals |-> {I(1)}, extra |-> FALSE]>>
FD_Paths == {<<"K">>}
FD_DispPaths == {<<"J">>}
FD_Consts == {I(1), I(5)}
FD_Bodies == {"f", "h"}
FD_Disp == <<I(1), Str("1")>>
FD_Cbs == {"", "cb"}
FD_Leaves == <<[p |-> <<"K">>, vals |-> {I(1), Str("1"), I(2)}, extra |-> FALSE],
               [p |-> <<"J">>, vals |-> {I(1), Str("1")}, extra |-> FALSE]>>

\* family "tupledispatch" (C07): composite (tuple-valued) dispatch values on datasets.  A tuple alias is ONE alias
\* (only a list spreads over several); (1, "1") and (1, 1) differ in a component that prints alike, and the bare 1
\* is a prefix of both: a lookup that flattens, stringifies or unpacks the dispatch value conflates them.
FDT_T1 == [t |-> "u", l |-> <<I(1), Str("1")>>]
FDT_T2 == [t |-> "u", l |-> <<I(1), I(1)>>]
FDT_Disp == <<FDT_T1, FDT_T2, I(1)>>
FDT_Leaves == <<[p |-> <<"K">>, vals |-> {I(1), I(2)}, extra |-> FALSE],
                [p |-> <<"J">>, vals |-> {FDT_T1, FDT_T2, I(1)}, extra |-> FALSE]>>
FDT_LeavesB == <<[p |-> <<"K">>, vals |-> {I(1)}, extra |-> FALSE],
                 [p |-> <<"J">>, vals |-> {FDT_T1, FDT_T2}, extra |-> FALSE]>>
FDT_DispB == <<FDT_T1, FDT_T2>>

\* family "classes" (C19): dataset classes = named members (a dict collection in the machine)
FL_Kinds == {"val", "opt", "fnapp", "ds", "coll"}
FL_Paths == {pA, pSX, pSY}
FL_Consts == {I(5), Lv(<<I(0), I(1)>>)}      \* the list serves as a declared domain: a member may fail validation though its key is present
FL_Bodies == {"f"}
FL_Leaves == <<[p |-> pA, vals |-> {I(0), I(2)}, extra |-> FALSE],
               [p |-> pSX, vals |-> {I(1), I(2)}, extra |-> FALSE],
               [p |-> pSY, vals |-> {I(0), I(3)}, extra |-> FALSE],
               [p |-> <<"Z">>, vals |-> {I(7), I(8)}, extra |-> TRUE]>>

\* family "maps" (C05, C03): Map over one and two keys in both key orders, distinct iterables
FM_Kinds == {"val", "opt", "fnapp", "map"}
FM_Paths == {pA, pSX, pSY}
FM_Consts == {Lv(<<I(0), I(1)>>), Lv(<<I(5), I(6), I(7)>>)}
FM_Bodies == {"f"}
FM_MapPaths == {pA, pSX, pSY}
FM_Leaves == <<[p |-> pA, vals |-> {I(3)}, extra |-> FALSE],
               [p |-> pSX, vals |-> {I(4)}, extra |-> FALSE],
               [p |-> pB, vals |-> {I(2)}, extra |-> FALSE]>>

\* family "mapswitch" (C03, C10, C11, C05): a Map whose body chooses a branch by the mapped key, so that the
\* iterations differ in the options they need (the first element's branch needs none, a later one's does)
FMS_Kinds == {"val", "opt", "switch", "map"}
FMS_Paths == {pA, pB}
FMS_Consts == {Lv(<<Str("x"), I(1)>>)}
FMS_Disp == <<I(1), Str("x")>>
FMS_MapPaths == {pA}
FMS_Seq == <<"val", "opt", "opt", "switch", "map">>
FMS_Leaves == <<[p |-> pA, vals |-> {I(1)}, extra |-> FALSE],
                [p |-> pB, vals |-> {I(1), I(2)}, extra |-> FALSE]>>

\* family "deepsections" (C01, C03, C08, C11): a whole section read under a pre-set that fixes a member two levels
\* down while the caller supplies a sibling of that member
pSTX == <<"S", "T", "X">>  pSTY == <<"S", "T", "Y">>  pSU == <<"S", "U">>
\* family "shadowsection" (C02, C01): a key pre-set to a SCALAR while the caller supplies a SECTION under it.  The
\* pre-set value wins, so nothing below the wrapper depends on the caller's section: dictionaries that differ only
\* inside it are one demand (one body run) for every cached dataset that reaches the wrapper.
FSH_Kinds == {"opt", "fnapp", "ds", "with"}
FSH_Paths == {pA, pB}
FSH_Presets == {Dv([k \in {"A"} |-> I(4)])}
FSH_Leaves == <<[p |-> <<"A", "X">>, vals |-> {I(1), I(2)}, extra |-> FALSE],
                [p |-> pB, vals |-> {I(1)}, extra |-> FALSE]>>
FDS_Kinds == {"opt", "with", "cached", "fnapp", "ds", "dsof"}
FDS_Paths == {<<"S">>, pSTY}
FDS_Bodies == {"f"}
FDS_Presets == {Dv([k \in {"S"} |-> Dv([j \in {"T"} |-> Dv([i \in {"X"} |-> I(8)])])])}
FDS_Leaves == <<[p |-> pSTX, vals |-> {I(1)}, extra |-> FALSE],
                [p |-> pSTY, vals |-> {I(3), I(4)}, extra |-> FALSE],
                [p |-> pSU, vals |-> {I(5)}, extra |-> FALSE]>>

\* family "illsorted" (C04, C10, C11): bare options over dictionaries in which a prefix of the key holds a scalar
FI_Kinds == {"opt", "val"}
FI_Paths == {pSX, <<"S">>, <<"S", "X", "Y">>}
FI_Consts == {I(5)}
FI_Leaves == <<[p |-> <<"S">>, vals |-> {I(3), Lv(<<I(1)>>)}, extra |-> FALSE],
               [p |-> pSX, vals |-> {I(1)}, extra |-> FALSE],
               [p |-> pA, vals |-> {I(0)}, extra |-> TRUE]>>

\* family "effparams" (C10, C03): an effect whose parameter is read from an option
FE_Kinds == {"opt", "fnapp", "ds"}
FE_Paths == {pA}
FE_Bodies == {"f"}
FE_Effs == {<<"ep">>, <<"e1", "ep">>}
FE_Leaves == <<[p |-> pA, vals |-> {I(1)}, extra |-> FALSE],
               [p |-> <<"EP">>, vals |-> {I(3), I(4)}, extra |-> FALSE]>>

\* family "selectors" (C03, C10, C11, C05): coalesce / switch over options with domains, 4 nodes exhaustively
FSL_Kinds == {"val", "opt", "coalesce", "switch"}
FSL_Paths == {pA, pB}
FSL_Consts == {Lv(<<I(0), I(1)>>), I(1)}
FSL_Disp == <<I(1), Str("1")>>
FSL_Leaves == <<[p |-> pA, vals |-> {I(0), I(1), Str("1")}, extra |-> FALSE],
                [p |-> pB, vals |-> {I(1), Str("1")}, extra |-> FALSE]>>

\* family "overloads" (C02): an implementation dataset registered under one or two aliases (decorator form)
FOV_Bodies == {"f"}
FOV_Leaves == <<[p |-> <<"K">>, vals |-> {I(1), Str("1")}, extra |-> FALSE]>>

\* family "cases" (C05, C12): case-when with constant and option-dependent, possibly raising predicates
FCS_Kinds == {"val", "opt", "pred", "case"}
FCS_Paths == {pA, pB}
FCS_Consts == {I(1), Str("x")}
FCS_Preds == {"eq", "truthy", "raise"}
FCS_Leaves == <<[p |-> pA, vals |-> {I(0), I(1), Str("x")}, extra |-> FALSE],
                [p |-> pB, vals |-> {I(1), I(2)}, extra |-> FALSE]>>

\* family "caseseq" (C10, C06, C05): one fixed shape, exhaustively -- a case-when with two clauses whose conditions are
\* predicates over a constant and over an option, so that a later condition may need an option the earlier, matching
\* one does not
FCQ_Seq == <<"opt", "val", "pred", "opt", "pred", "case">>
FCQ_Consts == {I(1)}
FCQ_Preds == {"eq"}
FCQ_Leaves == <<[p |-> pA, vals |-> {I(0), I(1)}, extra |-> FALSE],
                [p |-> pB, vals |-> {I(1)}, extra |-> FALSE]>>

\* family "coalesceiter" (C05, C06, C10): one fixed shape -- a coalesce whose first member is a LAZY collection (Iter) or a
\* list over two options: the member is validated before it is chosen, so a member that would only fail while its
\* elements are produced is never handed out
FCI_Seq == <<"opt", "opt", "coll", "val", "coalesce">>
FCI_Coll == {"iter", "list"}
FCI_Leaves == <<[p |-> pA, vals |-> {I(1)}, extra |-> FALSE], [p |-> pB, vals |-> {I(2)}, extra |-> FALSE]>>
\* family "failseq" (C12): one fixed shape -- every member of a coalesce fails and the last one fails in user code while
\* it is being VALIDATED (a bind function that raises): the cause chain still ends in that exception object
FFS_Seq == <<"opt", "val", "fnapp", "bind", "coalesce">>
FFS_Disp == <<I(2)>>
FFS_Leaves == <<[p |-> pB, vals |-> {I(1)}, extra |-> FALSE]>>

\* family "siblings" (C01, C08): derivatives of one dataset with different pre-set / default options
FS_Kinds == {"opt", "fnapp", "ds", "dsof", "coll"}
FS_Paths == {pA, pSX}
FS_Bodies == {"f"}
FS_Presets == {Dv([k \in {"A"} |-> I(9)]), Dv([k \in {"A"} |-> I(8)]),
               Dv([k \in {"S"} |-> Dv([j \in {"X"} |-> I(7)])])}
FS_Coll == {"list"}
FS_Leaves == <<[p |-> pA, vals |-> {I(1)}, extra |-> FALSE],
               [p |-> pSX, vals |-> {I(2)}, extra |-> FALSE],
               [p |-> <<"Z">>, vals |-> {I(7)}, extra |-> TRUE]>>

\* family "logging" (C16, C05, C18): Logged(inner, level, name, msg, log_first) wrappers anywhere in a graph
FLG_Kinds == {"val", "opt", "fnapp", "apply", "switch", "coalesce", "coll", "logged"}
FLG_Paths == {pA, pB}
FLG_Consts == {I(1)}
FLG_Fns == {"g"}
FLG_Bodies == {"f"}
FLG_Disp == <<I(1)>>
FLG_Leaves == <<[p |-> pA, vals |-> {I(0), I(1)}, extra |-> FALSE],
                [p |-> pB, vals |-> {I(1)}, extra |-> FALSE]>>

-----------------------------------------------------------------------------
\* one self-contained CASE line per observation: the graph, the tables, the call and everything
\* the specification prescribes about it
Emit == (act'.a = "Observe") => PrintT("CASE " \o ToJson([nodes |-> nodes, tabs |-> tabs, a |-> act']))
=============================================================================
