---------------------------- MODULE MC_Pipelines ----------------------------
(* Bounded term universes for Pipelines.tla, the laws as TLC invariants, and the CASE export. *)
EXTENDS Pipelines, Json, IOUtils

CONSTANTS MaxLen,     \* steps per composed pipeline
          Mode        \* "structure" | "helpers"

VARIABLE act

pP == <<"P">>  pQ == <<"Q">>
S1 == Dec("S1", pP, Absent)
S2 == Dec("S2", pQ, I(5))
Cc == Plain("c")
Ha == HelperO("add", pP)
Alphabet == {S1, S2, Cc, Ha, EmptyP}

RECURSIVE Terms(_)
Terms(n) ==      \* every bracketing of every sequence of n leaves
    IF n = 1 THEN {Leaf(s) : s \in Alphabet}
    ELSE UNION {{Plus(l, r) : l \in Terms(k), r \in Terms(n - k)} : k \in 1 .. n - 1}

PDicts == {EmptyD, Dv([k \in {"P"} |-> I(2)]), Dv([k \in {"Q"} |-> I(3)]), Dv([k \in {"P", "Q"} |-> IF k = "P" THEN I(1) ELSE I(3)])}
Inputs == {I(1)}

\* helper table: every helper, parameter as constant and as option, over small typed inputs
IntArgs == {I(0), I(2), I(3)}
SeqArgs == {Lv(<<I(1), I(2)>>), Lv(<<I(2), I(3), I(2)>>)}
BinInt == {"add", "subtract", "multiply", "left_multiply", "divide_by", "divide_into", "modulo", "eq", "ne", "gt", "ge", "lt", "le"}
BinSeqParam == {"is_in", "is_not_in", "concat", "union", "intersect", "difference", "symmetric_difference", "get_from"}
BinSeqInput == {"contains", "does_not_contain", "append", "get"}
Unary == {"negate", "length", "is_none", "positive", "even"}
HelperCases ==
    {[s |-> HelperC(h, a), x |-> x, o |-> EmptyD] : h \in BinInt, a \in IntArgs, x \in {I(1), I(2), I(7)}}
    \cup {[s |-> HelperO(h, pP), x |-> x, o |-> Dv([k \in {"P"} |-> a])] : h \in BinInt, a \in IntArgs, x \in {I(1), I(2), I(7)}}
    \cup {[s |-> HelperC(h, a), x |-> x, o |-> EmptyD] : h \in BinSeqParam, a \in SeqArgs, x \in {I(0), I(2), I(5)} \cup SeqArgs}
    \cup {[s |-> HelperO(h, pP), x |-> x, o |-> Dv([k \in {"P"} |-> a])] : h \in BinSeqParam, a \in SeqArgs, x \in {I(0), I(2), I(5)} \cup SeqArgs}
    \cup {[s |-> HelperC(h, a), x |-> x, o |-> EmptyD] : h \in BinSeqInput, a \in {I(0), I(2), I(5)}, x \in SeqArgs}
    \cup {[s |-> HelperO(h, pP), x |-> x, o |-> Dv([k \in {"P"} |-> a])] : h \in BinSeqInput, a \in {I(0), I(2), I(5)}, x \in SeqArgs}
    \cup {[s |-> HelperO(h, pP), x |-> x, o |-> EmptyD] : h \in {"add", "get"}, x \in {I(1)} \cup SeqArgs}
    \cup {[s |-> HelperC("add", a), x |-> x, o |-> EmptyD] : a \in {Str("ab"), Lv(<<I(9)>>)}, x \in {Str("xy"), Lv(<<I(1), I(2)>>)}}
    \cup {[s |-> HelperO("add", pP), x |-> x, o |-> Dv([k \in {"P"} |-> a])] : a \in {Str("ab"), Lv(<<I(9)>>)}, x \in {Str("xy"), Lv(<<I(1), I(2)>>)}}
    \cup {[s |-> Helper0(h), x |-> x, o |-> EmptyD] : h \in Unary, x \in {I(0), I(3), Nv} \cup SeqArgs}

Record(term, x, o) ==
    [a |-> "Pipe", term |-> term, x |-> x, o |-> o, names |-> Names(term),
     res |-> Transform(term, x, o), keys |-> KeysOfP(term, o), explain |-> ExplainP(term, o)]

Init == act = [a |-> "Init"]
Next ==
    /\ act.a = "Init"
    /\ \/ /\ Mode = "structure"
          /\ \E n \in 1 .. MaxLen : \E term \in Terms(n) : \E x \in Inputs, o \in PDicts : act' = Record(term, x, o)
       \/ /\ Mode = "helpers"
          /\ \E c \in HelperCases : act' = Record(Leaf(c.s), c.x, c.o)
Spec == Init /\ [][Next]_act

\* the laws, on every triple of pipelines of <= 2 leaves (and pairs of <= 3)
Small == Terms(1) \cup Terms(2)
Laws ==
    (act.a = "Init") =>
        /\ \A a \in Small, b \in Small, c \in Terms(1) : Assoc(a, b, c)
        /\ \A a \in Small \cup Terms(3) : IdLeft(a) /\ IdRight(a)
        /\ \A l \in Small, r \in Small, x \in Inputs, o \in PDicts : Compose(l, r, x, o)

Emit == PrintT("CASE " \o ToJson(act'))
=============================================================================
