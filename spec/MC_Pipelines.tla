---------------------------- MODULE MC_Pipelines ----------------------------
(* Bounded term universes for Pipelines.tla, the laws as TLC invariants, and the CASE export. *)
EXTENDS Pipelines, Json, IOUtils

CONSTANTS MaxLen,     \* steps per composed pipeline
          Mode        \* "structure" | "helpers"

VARIABLE act

pP == <<"P">>  pQ == <<"Q">>
S1 == Dec("S1", pP, Absent)
S2 == Dec("S2", pQ, I(5))
Cc == Plain("c")
Ha == HelperO("add", pP)
Alphabet == {S1, S2, Cc, Ha, EmptyP}

RECURSIVE Terms(_)
Terms(n) ==      \* every bracketing of every sequence of n leaves
    IF n = 1 THEN {Leaf(s) : s \in Alphabet}
    ELSE UNION {{Plus(l, r) : l \in Terms(k), r \in Terms(n - k)} : k \in 1 .. n - 1}

PDicts == {EmptyD, Dv([k \in {"P"} |-> I(2)]), Dv([k \in {"Q"} |-> I(3)]), Dv([k \in {"P", "Q"} |-> IF k = "P" THEN I(1) ELSE I(3)])}
Inputs == {I(1)}

\* helper table: every helper, parameter as constant and as option, over small typed inputs
IntArgs == {I(0), I(2), I(3)}
SeqArgs == {Lv(<<I(1), I(2)>>), Lv(<<I(2), I(3), I(2)>>)}
BinInt == {"add", "subtract", "multiply", "left_multiply", "divide_by", "divide_into", "modulo", "eq", "ne", "gt", "ge", "lt", "le"}
BinSeqParam == {"is_in", "is_not_in", "concat", "union", "intersect", "difference", "symmetric_difference", "get_from"}
BinSeqInput == {"contains", "does_not_contain", "append", "get"}
Unary == {"negate", "length", "is_none", "positive", "even"}
HelperCases ==
    {[s |-> HelperC(h, a), x |-> x, o |-> EmptyD] : h \in BinInt, a \in IntArgs, x \in {I(1), I(2), I(7)}}
    \cup {[s |-> HelperO(h, pP), x |-> x, o |-> Dv([k \in {"P"} |-> a])] : h \in BinInt, a \in IntArgs, x \in {I(1), I(2), I(7)}}
    \cup {[s |-> HelperC(h, a), x |-> x, o |-> EmptyD] : h \in BinSeqParam, a \in SeqArgs, x \in {I(0), I(2), I(5)} \cup SeqArgs}
    \cup {[s |-> HelperO(h, pP), x |-> x, o |-> Dv([k \in {"P"} |-> a])] : h \in BinSeqParam, a \in SeqArgs, x \in {I(0), I(2), I(5)} \cup SeqArgs}
    \cup {[s |-> HelperC(h, a), x |-> x, o |-> EmptyD] : h \in BinSeqInput, a \in {I(0), I(2), I(5)}, x \in SeqArgs}
    \cup {[s |-> HelperO(h, pP), x |-> x, o |-> Dv([k \in {"P"} |-> a])] : h \in BinSeqInput, a \in {I(0), I(2), I(5)}, x \in SeqArgs}
    \cup {[s |-> HelperO(h, pP), x |-> x, o |-> EmptyD] : h \in {"add", "get"}, x \in {I(1)} \cup SeqArgs}
    \cup {[s |-> HelperC("add", a), x |-> x, o |-> EmptyD] : a \in {Str("ab"), Lv(<<I(9)>>)}, x \in {Str("xy"), Lv(<<I(1), I(2)>>)}}
    \cup {[s |-> HelperO("add", pP), x |-> x, o |-> Dv([k \in {"P"} |-> a])] : a \in {Str("ab"), Lv(<<I(9)>>)}, x \in {Str("xy"), Lv(<<I(1), I(2)>>)}}
    \cup {[s |-> Helper0(h), x |-> x, o |-> EmptyD] : h \in Unary, x \in {I(0), I(3), Nv} \cup SeqArgs}

\* the general helper table (Mode = "helpers2")
ListArgs == {Lv(<<>>), Lv(<<I(1), I(2)>>), Lv(<<I(2), I(0), I(2)>>)}
Nested == {Lv(<<Lv(<<I(1)>>), Lv(<<>>), Lv(<<I(2), I(3)>>)>>), Lv(<<>>)}
DA == Dv([k \in {"a", "b"} |-> IF k = "a" THEN I(1) ELSE I(2)])
DB == Dv([k \in {"b", "c"} |-> IF k = "b" THEN I(5) ELSE I(0)])
DictArgs == {DA, DB, EmptyD}
PQ(a, b) == Dv([k \in {"P", "Q"} |-> IF k = "P" THEN a ELSE b])
OnlyP(a) == Dv([k \in {"P"} |-> a])
F1(h, fs, xs) == {[s |-> HelperG(h, <<PF(f)>>), x |-> x, o |-> EmptyD] : f \in fs, x \in xs}
F0(h, xs) == {[s |-> HelperG(h, <<>>), x |-> x, o |-> EmptyD] : x \in xs}
V1(h, as, xs) ==
    {[s |-> HelperG(h, <<PC(a)>>), x |-> x, o |-> EmptyD] : a \in as, x \in xs}
    \cup {[s |-> HelperG(h, <<PO(pP)>>), x |-> x, o |-> OnlyP(a)] : a \in as, x \in xs}
    \cup {[s |-> HelperG(h, <<PO(pP)>>), x |-> x, o |-> EmptyD] : x \in xs}
V2(h, as, bs, xs) ==
    UNION {{[s |-> HelperG(h, <<IF m1 THEN PC(a) ELSE PO(pP), IF m2 THEN PC(b) ELSE PO(pQ)>>), x |-> x, o |-> o] :
               x \in xs, m1 \in BOOLEAN, m2 \in BOOLEAN, o \in {PQ(a, b), OnlyP(a)}} : a \in as, b \in bs}
FV(h, fs, as, xs) ==
    {[s |-> HelperG(h, <<PF(f), PC(a)>>), x |-> x, o |-> EmptyD] : f \in fs, a \in as, x \in xs}
    \cup UNION {{[s |-> HelperG(h, <<PF(f), PO(pP)>>), x |-> x, o |-> o] : f \in fs, x \in xs, o \in {OnlyP(a), EmptyD}} : a \in as}
Ints3 == {I(0), I(3), I(0 - 2)}
HelperGCases ==
    F1("map", {"g", "inc"}, ListArgs) \cup F1("filter", {"isPos", "isBig"}, ListArgs)
    \cup F1("reduce", {"h2"}, ListArgs) \cup FV("reduce", {"h2"}, {I(9)}, ListArgs)
    \cup F1("into", {"h2"}, ListArgs \cup {[t |-> "u", l |-> <<I(4), I(6)>>], DA})
    \cup F0("flatten", Nested) \cup F1("flatmap", {"dup"}, ListArgs)
    \cup F0("invert", {Bv(TRUE), Bv(FALSE), I(0), I(2), Nv}) \cup F1("invert", {"isPos"}, Ints3)
    \cup {[s |-> HelperG(h, <<PF("isPos"), PF("isBig")>>), x |-> x, o |-> EmptyD] : h \in {"all", "any"}, x \in {I(0), I(1), I(2)}}
    \cup V2("has_remainder", {I(2), I(3)}, {I(0), I(1)}, {I(4), I(7)})
    \cup UNION {F0(h, Ints3 \cup {I(5)}) : h \in {"negative", "non_positive", "non_negative", "odd"}}
    \cup F0("is_not_none", {Nv, I(0), Bv(FALSE)})
    \cup V2("one_of", {I(1), I(2)}, {I(3)}, {I(1), I(3), I(5)}) \cup V2("none_of", {I(1), I(2)}, {I(3)}, {I(1), I(3), I(5)})
    \cup V1("intersects", SeqArgs, SeqArgs \cup {Lv(<<I(7)>>)}) \cup V1("disjoint_from", SeqArgs, SeqArgs \cup {Lv(<<I(7)>>)})
    \cup V2("get", {I(0), I(5)}, {I(99), Nv}, SeqArgs) \cup V2("get", {Str("a"), Str("zz")}, {I(99)}, DictArgs)
    \cup V2("get_from", SeqArgs, {I(99), Nv}, {I(0), I(5)})
    \cup V1("merge", DictArgs, DictArgs)
    \cup F1("map_keys", {"kz"}, DictArgs) \cup F1("map_values", {"inc", "g"}, DictArgs) \cup F1("map_items", {"kzinc"}, DictArgs)
    \cup F1("filter_keys", {"isA"}, DictArgs) \cup F1("filter_values", {"isPos", "isBig"}, DictArgs) \cup F1("filter_items", {"isAorBig"}, DictArgs)
    \cup F1("ensure", {"isPos"}, {I(0), I(3)})
    \cup {[s |-> HelperG("instance_of", tys), x |-> x, o |-> EmptyD] :
            tys \in {<<PF("int")>>, <<PF("str"), PF("list")>>, <<PF("bool")>>}, x \in {I(1), Bv(TRUE), Str("ab"), Lv(<<>>)}}
    \cup {[s |-> HelperG("call_method", <<nm, PC(I(2))>>), x |-> x, o |-> OnlyP(Str("count"))] : nm \in {PC(Str("count")), PO(pP)}, x \in ListArgs}
    \cup V1("get_attribute", {Str("real"), Str("imag")}, {I(3)})
    \cup V2("partial", {I(1)}, {I(2)}, {I(7)})

Record(term, x, o) ==
    [a |-> "Pipe", term |-> term, x |-> x, o |-> o, names |-> Names(term),
     res |-> Transform(term, x, o), keys |-> KeysOfP(term, o), explain |-> ExplainP(term, o)]

Init == act = [a |-> "Init"]
Next ==
    /\ act.a = "Init"
    /\ \/ /\ Mode = "structure"
          /\ \E n \in 1 .. MaxLen : \E term \in Terms(n) : \E x \in Inputs, o \in PDicts : act' = Record(term, x, o)
       \/ /\ Mode = "helpers"
          /\ \E c \in HelperCases : act' = Record(Leaf(c.s), c.x, c.o)
       \/ /\ Mode = "helpers2"
          /\ \E c \in HelperGCases : act' = Record(Leaf(c.s), c.x, c.o)
Spec == Init /\ [][Next]_act

\* the laws, on every triple of pipelines of <= 2 leaves (and pairs of <= 3)
Small == Terms(1) \cup Terms(2)
Laws ==
    (act.a = "Init") =>
        /\ \A a \in Small, b \in Small, c \in Terms(1) : Assoc(a, b, c)
        /\ \A a \in Small \cup Terms(3) : IdLeft(a) /\ IdRight(a)
        /\ \A l \in Small, r \in Small, x \in Inputs, o \in PDicts : Compose(l, r, x, o)

Emit == PrintT("CASE " \o ToJson(act'))
=============================================================================
