--------------------------- MODULE Trace_Requests ---------------------------
(***************************************************************************)
(* The cache requests issued while the repository's OWN tests run,         *)
(* validated against what a reliable in-memory backend and Cached.evaluate *)
(* may do (C01 / C12 on executions the suite already exercises):           *)
(*   exists answers TRUE exactly when an entry for the key was stored       *)
(*   (and caching is not disabled by option), get succeeds exactly then,    *)
(*   a set under a disabled cache stores nothing: the same key -- cache     *)
(*   object and fingerprint bytes -- must be computed at set and at lookup. *)
(* A key is (cache object, fingerprint); keys are independent.             *)
(***************************************************************************)
EXTENDS Naturals, Sequences, FiniteSets, TLC, Json, IOUtils, FiniteSetsExt

Traces == ndJsonDeserialize(IOEnv.TRACE_FILE)

VARIABLES stored,   \* keys that hold an entry
          missed,   \* keys for which a miss was observed and no set followed yet
          tid, l
vars == <<stored, missed, tid, l>>

Trace == Traces[tid].ev
Ev == Trace[l]

Init ==
    /\ stored = {} /\ missed = {}
    /\ tid \in 1 .. Len(Traces) /\ l = 1
    /\ \A i \in 1 .. Len(Traces) : TLCSet(i, 0)

Is(e) == l <= Len(Trace) /\ Ev.e = e /\ l' = l + 1 /\ UNCHANGED tid

\* with caching disabled by option (Ev.dis) entries are neither read nor written (C16)
Exists ==
    /\ Is("exists")
    /\ Ev.r = (IF Ev.k \in stored /\ ~Ev.dis THEN "True" ELSE "False")
    /\ missed' = IF Ev.k \in stored /\ ~Ev.dis THEN missed ELSE missed \cup {Ev.k}
    /\ UNCHANGED stored

Get ==
    /\ Is("get")
    /\ Ev.r = (IF Ev.k \in stored /\ ~Ev.dis THEN "ok" ELSE "miss")
    /\ missed' = IF Ev.k \in stored /\ ~Ev.dis THEN missed ELSE missed \cup {Ev.k}
    /\ UNCHANGED stored

Set ==
    /\ Is("set")
    \* (re-storing a key that already holds an entry is not forbidden by any property: no precondition)
    /\ stored' = IF Ev.dis THEN stored ELSE stored \cup {Ev.k}
    /\ missed' = missed \ {Ev.k}

TestBoundary == Is("test") /\ UNCHANGED <<stored, missed>>

Done == l = Len(Trace) + 1 /\ UNCHANGED vars
Next == Exists \/ Get \/ Set \/ TestBoundary \/ Done
Spec == Init /\ [][Next]_vars

Reach == TLCSet(tid, IF TLCGet(tid) < l THEN l ELSE TLCGet(tid))
Rejected == {i \in 1 .. Len(Traces) : TLCGet(i) # Len(Traces[i].ev) + 1}
TraceAccepted ==
    /\ \A i \in Rejected : PrintT("REJECTED " \o ToJson([tid |-> i, line |-> TLCGet(i)]))
    /\ PrintT("VALIDATED " \o ToString(Len(Traces) - Cardinality(Rejected)))
=============================================================================
