---------------------------- MODULE Trace_Threads ----------------------------
(***************************************************************************)
(* Linearizability check of recorded concurrent histories against          *)
(* Threads.tla.  A trace is a sequence of call / ret events in the real-   *)
(* time order in which the (deterministically scheduled) threads issued    *)
(* them; between the call and the ret of an operation the trace spec takes *)
(* one silent Lin step for it.  Runtime objects are referred to by the     *)
(* names the recording harness gave them; `alias` binds a name to the id   *)
(* the machine allocated when the creating operation was linearised.       *)
(***************************************************************************)
EXTENDS Threads, Json, IOUtils, SequencesExt, FiniteSetsExt

Traces == ndJsonDeserialize(IOEnv.TRACE_FILE)

VARIABLES tid, l, alias
xvars == <<tvars, tid, l, alias>>

XThreads == {"t1", "t2", "t3"}
XTypes == {"A", "B", "C"}
XInitD == {"A"}
XLate == {"B"}
XOv == SUBSET XTypes
XKeys == {"a", "b", "c"}
XVals == {"x1", "x2", "x3"}

Trace == Traces[tid]
Ev == Trace[l]

OpOf(e) ==
    CASE e.k = "Create"          -> [k |-> e.k, tys |-> ToSet(e.tys)]
      [] e.k = "Derive"          -> [k |-> e.k, tys |-> ToSet(e.tys), src |-> alias[e.srcn]]
      [] e.k = "HandleCurrent"   -> [k |-> e.k, tys |-> ToSet(e.tys)]
      [] e.k = "Enter"           -> [k |-> e.k, r |-> alias[e.rn]]
      [] e.k = "Exit"            -> [k |-> e.k, how |-> e.how]
      [] e.k = "Probe"           -> [k |-> e.k]
      [] e.k = "Inherit"         -> [k |-> e.k, p |-> e.p]
      [] e.k = "RegisterDefault" -> [k |-> e.k, ty |-> e.ty]
      [] e.k = "Register"        -> [k |-> e.k, key |-> e.key]
      [] e.k = "Lookup"          -> [k |-> e.k, key |-> e.key]
      [] e.k = "EvalCached"      -> [k |-> e.k, val |-> e.val]

XInit ==
    /\ TInit
    /\ tid \in 1 .. Len(Traces)
    /\ l = 1
    /\ alias = [x \in {} |-> 0]
    /\ \A i \in 1 .. Len(Traces) : TLCSet(i, 0)

Consume == l' = l + 1 /\ UNCHANGED tid

XCall ==
    /\ l <= Len(Trace) /\ Ev.e = "call"
    /\ Call(Ev.t, OpOf(Ev))
    /\ Consume /\ UNCHANGED alias

\* the real handler returned its harness name; the machine prescribes the tag of the runtime id
TagMatches(tag, e, ty) ==
    CASE e.kind = "h" -> e.name \in DOMAIN alias /\ e.ty = ty /\ tag = HandlerTag(alias[e.name], ty)
      [] e.kind = "d" -> tag = DefaultTag(ty)
      [] e.kind = "TypeError" -> tag = TypeErr
      [] OTHER -> FALSE

Creating(k) == k \in {"Create", "Derive", "HandleCurrent"}

XRet ==
    /\ l <= Len(Trace) /\ Ev.e = "ret"
    /\ LET t == Ev.t IN
       /\ pend[t].k = Ev.k /\ pend[t].st = "done"
       /\ IF Creating(Ev.k)
          THEN /\ Ev.res = "ok"
               /\ alias' = (Ev.name :> pend[t].res) @@ alias
               /\ Ret(t, pend[t].res)
          ELSE /\ UNCHANGED alias
               /\ IF Ev.k = "Probe"
                  THEN /\ \A ty \in ReqTypes : TagMatches(pend[t].res[ty], Ev.res[ty], ty)
                       /\ Ret(t, pend[t].res)
                  ELSE /\ pend[t].res = Ev.res
                       /\ Ret(t, Ev.res)
    /\ Consume

XLin == \E t \in Threads : Lin(t) /\ UNCHANGED <<tid, l, alias>>

XDone == l = Len(Trace) + 1 /\ UNCHANGED xvars

XNext == XCall \/ XRet \/ XLin \/ XDone
XSpec == XInit /\ [][XNext]_xvars

Reach == TLCSet(tid, IF TLCGet(tid) < l THEN l ELSE TLCGet(tid))

Rejected == {i \in 1 .. Len(Traces) : TLCGet(i) # Len(Traces[i]) + 1}
TraceAccepted ==
    /\ \A i \in Rejected : PrintT("REJECTED " \o ToJson([tid |-> i, line |-> TLCGet(i)]))
    /\ PrintT("VALIDATED " \o ToString(Len(Traces) - Cardinality(Rejected)))
=============================================================================
