----------------------------- MODULE ThreadsImpl -----------------------------
(***************************************************************************)
(* C15, implementation-shaped: the critical sections labrea uses for its   *)
(* thread-shared state, one label per step that another thread can         *)
(* interleave with:                                                        *)
(*   - Overloaded.register: copy-on-write of the lookup table under the    *)
(*     per-instance lock (labrea/overload.py);                             *)
(*   - Runtime.__enter__/__exit__: the thread's current runtime and the    *)
(*     runtime to restore, under the module lock (labrea/runtime.py, as    *)
(*     repaired: one restore entry per thread and per entry);              *)
(*   - Cached.evaluate: exists / get / compute / set / read-back on a      *)
(*     store whose single operations are atomic (labrea/cache.py).         *)
(* Every thread runs: register its own alias; enter the shared runtime,    *)
(* observe, leave; evaluate the shared cached dataset under its own value. *)
(* TLC explores every interleaving.  The three switches select the broken  *)
(* designs (lock not covering the read, restore pointer on the object,     *)
(* cache key without the options) and are used to show that the            *)
(* invariants are not vacuous.                                             *)
(***************************************************************************)
EXTENDS Naturals, Sequences, FiniteSets, TLC

CONSTANTS Procs,            \* thread ids
          LockCoversRead,   \* TRUE: register reads the table inside the lock (the code)
          RestorePerThread, \* TRUE: restore entry kept per thread/entry (the repaired code)
          KeyHasOptions     \* TRUE: cache key is the fingerprint of the options (the code)

None == 0
Shared == 100   \* the runtime object all threads enter

(* --algorithm ThreadsImpl
variables
    lookup = {},                       \* Overloaded.lookup: set of registered aliases
    olock = None,                      \* per-instance lock owner
    rlock = None,                      \* module lock of labrea.runtime
    cur = [p \in Procs |-> p],         \* _RUNTIMES[thread]: each thread starts in its own runtime p
    objprev = None,                    \* Runtime.previous of the shared object (old design)
    prevstack = [p \in Procs |-> <<>>],\* per-thread restore stack (repaired design)
    store = [k \in {} |-> 0],          \* cache: key -> value
    seen = [p \in Procs |-> None],     \* what the thread was served inside the block
    after = [p \in Procs |-> Shared],  \* the thread's runtime after leaving the block
    got = [p \in Procs |-> None],      \* value returned by the cached evaluation
    done = [p \in Procs |-> FALSE];

define
    KeyOf(p) == IF KeyHasOptions THEN p ELSE 1
    ValOf(p) == 1000 + p               \* the value belonging to p's options
end define;

process thr \in Procs
variables tmp = {}, ex = FALSE, restore = None;
begin
  \* ---- Overloaded.register(alias_p, ...) ----
  RegRead0: if ~LockCoversRead then tmp := lookup; end if;
  RegAcq:   await olock = None; olock := self;
  RegRead:  if LockCoversRead then tmp := lookup; end if;
  RegWrite: lookup := tmp \cup {self};
  RegRel:   olock := None;
  \* ---- with shared: ... ----
  EntAcq:   await rlock = None; rlock := self;
  EntBody:  if RestorePerThread then
                prevstack[self] := Append(prevstack[self], cur[self]);
            else
                objprev := cur[self];
            end if;
            cur[self] := Shared;
  EntRel:   rlock := None;
  Observe:  seen[self] := cur[self];
  ExAcq:    await rlock = None; rlock := self;
  ExBody:   if RestorePerThread then
                restore := prevstack[self][Len(prevstack[self])];
                prevstack[self] := SubSeq(prevstack[self], 1, Len(prevstack[self]) - 1);
            else
                restore := objprev;
                objprev := None;
            end if;
            cur[self] := restore;
  ExRel:    rlock := None;
  AfterBlk: after[self] := cur[self];
  \* ---- Cached.evaluate under p's options ----
  CExists:  ex := KeyOf(self) \in DOMAIN store;
  CGet:     if ex /\ KeyOf(self) \in DOMAIN store then
                got[self] := store[KeyOf(self)];
                goto Fin;
            end if;
  CCompute: tmp := {ValOf(self)};
  CSet:     store := (KeyOf(self) :> ValOf(self)) @@ store;
  CReadBk:  if KeyOf(self) \in DOMAIN store then
                got[self] := store[KeyOf(self)];
            else
                got[self] := ValOf(self);
            end if;
  Fin:      done[self] := TRUE;
end process;
end algorithm; *)
\* BEGIN TRANSLATION (chksum(pcal) = "2f0a1ceb" /\ chksum(tla) = "53d4ce24")
VARIABLES pc, lookup, olock, rlock, cur, objprev, prevstack, store, seen, 
          after, got, done

(* define statement *)
KeyOf(p) == IF KeyHasOptions THEN p ELSE 1
ValOf(p) == 1000 + p

VARIABLES tmp, ex, restore

vars == << pc, lookup, olock, rlock, cur, objprev, prevstack, store, seen, 
           after, got, done, tmp, ex, restore >>

ProcSet == (Procs)

Init == (* Global variables *)
        /\ lookup = {}
        /\ olock = None
        /\ rlock = None
        /\ cur = [p \in Procs |-> p]
        /\ objprev = None
        /\ prevstack = [p \in Procs |-> <<>>]
        /\ store = [k \in {} |-> 0]
        /\ seen = [p \in Procs |-> None]
        /\ after = [p \in Procs |-> Shared]
        /\ got = [p \in Procs |-> None]
        /\ done = [p \in Procs |-> FALSE]
        (* Process thr *)
        /\ tmp = [self \in Procs |-> {}]
        /\ ex = [self \in Procs |-> FALSE]
        /\ restore = [self \in Procs |-> None]
        /\ pc = [self \in ProcSet |-> "RegRead0"]

RegRead0(self) == /\ pc[self] = "RegRead0"
                  /\ IF ~LockCoversRead
                        THEN /\ tmp' = [tmp EXCEPT ![self] = lookup]
                        ELSE /\ TRUE
                             /\ tmp' = tmp
                  /\ pc' = [pc EXCEPT ![self] = "RegAcq"]
                  /\ UNCHANGED << lookup, olock, rlock, cur, objprev, 
                                  prevstack, store, seen, after, got, done, ex, 
                                  restore >>

RegAcq(self) == /\ pc[self] = "RegAcq"
                /\ olock = None
                /\ olock' = self
                /\ pc' = [pc EXCEPT ![self] = "RegRead"]
                /\ UNCHANGED << lookup, rlock, cur, objprev, prevstack, store, 
                                seen, after, got, done, tmp, ex, restore >>

RegRead(self) == /\ pc[self] = "RegRead"
                 /\ IF LockCoversRead
                       THEN /\ tmp' = [tmp EXCEPT ![self] = lookup]
                       ELSE /\ TRUE
                            /\ tmp' = tmp
                 /\ pc' = [pc EXCEPT ![self] = "RegWrite"]
                 /\ UNCHANGED << lookup, olock, rlock, cur, objprev, prevstack, 
                                 store, seen, after, got, done, ex, restore >>

RegWrite(self) == /\ pc[self] = "RegWrite"
                  /\ lookup' = (tmp[self] \cup {self})
                  /\ pc' = [pc EXCEPT ![self] = "RegRel"]
                  /\ UNCHANGED << olock, rlock, cur, objprev, prevstack, store, 
                                  seen, after, got, done, tmp, ex, restore >>

RegRel(self) == /\ pc[self] = "RegRel"
                /\ olock' = None
                /\ pc' = [pc EXCEPT ![self] = "EntAcq"]
                /\ UNCHANGED << lookup, rlock, cur, objprev, prevstack, store, 
                                seen, after, got, done, tmp, ex, restore >>

EntAcq(self) == /\ pc[self] = "EntAcq"
                /\ rlock = None
                /\ rlock' = self
                /\ pc' = [pc EXCEPT ![self] = "EntBody"]
                /\ UNCHANGED << lookup, olock, cur, objprev, prevstack, store, 
                                seen, after, got, done, tmp, ex, restore >>

EntBody(self) == /\ pc[self] = "EntBody"
                 /\ IF RestorePerThread
                       THEN /\ prevstack' = [prevstack EXCEPT ![self] = Append(prevstack[self], cur[self])]
                            /\ UNCHANGED objprev
                       ELSE /\ objprev' = cur[self]
                            /\ UNCHANGED prevstack
                 /\ cur' = [cur EXCEPT ![self] = Shared]
                 /\ pc' = [pc EXCEPT ![self] = "EntRel"]
                 /\ UNCHANGED << lookup, olock, rlock, store, seen, after, got, 
                                 done, tmp, ex, restore >>

EntRel(self) == /\ pc[self] = "EntRel"
                /\ rlock' = None
                /\ pc' = [pc EXCEPT ![self] = "Observe"]
                /\ UNCHANGED << lookup, olock, cur, objprev, prevstack, store, 
                                seen, after, got, done, tmp, ex, restore >>

Observe(self) == /\ pc[self] = "Observe"
                 /\ seen' = [seen EXCEPT ![self] = cur[self]]
                 /\ pc' = [pc EXCEPT ![self] = "ExAcq"]
                 /\ UNCHANGED << lookup, olock, rlock, cur, objprev, prevstack, 
                                 store, after, got, done, tmp, ex, restore >>

ExAcq(self) == /\ pc[self] = "ExAcq"
               /\ rlock = None
               /\ rlock' = self
               /\ pc' = [pc EXCEPT ![self] = "ExBody"]
               /\ UNCHANGED << lookup, olock, cur, objprev, prevstack, store, 
                               seen, after, got, done, tmp, ex, restore >>

ExBody(self) == /\ pc[self] = "ExBody"
                /\ IF RestorePerThread
                      THEN /\ restore' = [restore EXCEPT ![self] = prevstack[self][Len(prevstack[self])]]
                           /\ prevstack' = [prevstack EXCEPT ![self] = SubSeq(prevstack[self], 1, Len(prevstack[self]) - 1)]
                           /\ UNCHANGED objprev
                      ELSE /\ restore' = [restore EXCEPT ![self] = objprev]
                           /\ objprev' = None
                           /\ UNCHANGED prevstack
                /\ cur' = [cur EXCEPT ![self] = restore'[self]]
                /\ pc' = [pc EXCEPT ![self] = "ExRel"]
                /\ UNCHANGED << lookup, olock, rlock, store, seen, after, got, 
                                done, tmp, ex >>

ExRel(self) == /\ pc[self] = "ExRel"
               /\ rlock' = None
               /\ pc' = [pc EXCEPT ![self] = "AfterBlk"]
               /\ UNCHANGED << lookup, olock, cur, objprev, prevstack, store, 
                               seen, after, got, done, tmp, ex, restore >>

AfterBlk(self) == /\ pc[self] = "AfterBlk"
                  /\ after' = [after EXCEPT ![self] = cur[self]]
                  /\ pc' = [pc EXCEPT ![self] = "CExists"]
                  /\ UNCHANGED << lookup, olock, rlock, cur, objprev, 
                                  prevstack, store, seen, got, done, tmp, ex, 
                                  restore >>

CExists(self) == /\ pc[self] = "CExists"
                 /\ ex' = [ex EXCEPT ![self] = KeyOf(self) \in DOMAIN store]
                 /\ pc' = [pc EXCEPT ![self] = "CGet"]
                 /\ UNCHANGED << lookup, olock, rlock, cur, objprev, prevstack, 
                                 store, seen, after, got, done, tmp, restore >>

CGet(self) == /\ pc[self] = "CGet"
              /\ IF ex[self] /\ KeyOf(self) \in DOMAIN store
                    THEN /\ got' = [got EXCEPT ![self] = store[KeyOf(self)]]
                         /\ pc' = [pc EXCEPT ![self] = "Fin"]
                    ELSE /\ pc' = [pc EXCEPT ![self] = "CCompute"]
                         /\ got' = got
              /\ UNCHANGED << lookup, olock, rlock, cur, objprev, prevstack, 
                              store, seen, after, done, tmp, ex, restore >>

CCompute(self) == /\ pc[self] = "CCompute"
                  /\ tmp' = [tmp EXCEPT ![self] = {ValOf(self)}]
                  /\ pc' = [pc EXCEPT ![self] = "CSet"]
                  /\ UNCHANGED << lookup, olock, rlock, cur, objprev, 
                                  prevstack, store, seen, after, got, done, ex, 
                                  restore >>

CSet(self) == /\ pc[self] = "CSet"
              /\ store' = (KeyOf(self) :> ValOf(self)) @@ store
              /\ pc' = [pc EXCEPT ![self] = "CReadBk"]
              /\ UNCHANGED << lookup, olock, rlock, cur, objprev, prevstack, 
                              seen, after, got, done, tmp, ex, restore >>

CReadBk(self) == /\ pc[self] = "CReadBk"
                 /\ IF KeyOf(self) \in DOMAIN store
                       THEN /\ got' = [got EXCEPT ![self] = store[KeyOf(self)]]
                       ELSE /\ got' = [got EXCEPT ![self] = ValOf(self)]
                 /\ pc' = [pc EXCEPT ![self] = "Fin"]
                 /\ UNCHANGED << lookup, olock, rlock, cur, objprev, prevstack, 
                                 store, seen, after, done, tmp, ex, restore >>

Fin(self) == /\ pc[self] = "Fin"
             /\ done' = [done EXCEPT ![self] = TRUE]
             /\ pc' = [pc EXCEPT ![self] = "Done"]
             /\ UNCHANGED << lookup, olock, rlock, cur, objprev, prevstack, 
                             store, seen, after, got, tmp, ex, restore >>

thr(self) == RegRead0(self) \/ RegAcq(self) \/ RegRead(self)
                \/ RegWrite(self) \/ RegRel(self) \/ EntAcq(self)
                \/ EntBody(self) \/ EntRel(self) \/ Observe(self)
                \/ ExAcq(self) \/ ExBody(self) \/ ExRel(self)
                \/ AfterBlk(self) \/ CExists(self) \/ CGet(self)
                \/ CCompute(self) \/ CSet(self) \/ CReadBk(self)
                \/ Fin(self)

(* Allow infinite stuttering to prevent deadlock on termination. *)
Terminating == /\ \A self \in ProcSet: pc[self] = "Done"
               /\ UNCHANGED vars

Next == (\E self \in Procs: thr(self))
           \/ Terminating

Spec == Init /\ [][Next]_vars

Termination == <>(\A self \in ProcSet: pc[self] = "Done")

\* END TRANSLATION 
 

-----------------------------------------------------------------------------
AllDone == \A p \in Procs : done[p]

\* C15: overloads registered concurrently are all present afterwards
AllRegistered == AllDone => lookup = Procs

\* C15: a context entered in one thread never changes what another thread is served,
\* and leaving restores the thread's own prior runtime (here: none)
ContextsThreadLocal ==
    \A p \in Procs : (pc[p] \in {"ExAcq", "ExBody"} => seen[p] = Shared)
                     /\ (done[p] => after[p] = p)

\* C15: concurrent evaluations of one cached dataset each return their own value
OwnValue == \A p \in Procs : done[p] => got[p] = ValOf(p)

=============================================================================
