------------------------------- MODULE Threads -------------------------------
(***************************************************************************)
(* C15: the thread-shared state of labrea as an *atomic-operation* machine.*)
(* Every public operation a thread performs (enter / exit / request,       *)
(* inherit, register-default, register an overload, evaluate a dispatching *)
(* dataset, evaluate a cached dataset) takes effect atomically at some     *)
(* point between its call and its return.  A concurrent execution of the   *)
(* real code is correct iff its Call/Ret history is a behaviour of this    *)
(* machine (linearizability); Trace_Threads.tla checks that for recorded   *)
(* histories, ThreadsImpl.tla checks that the critical-section structure   *)
(* the code uses (lock around read-modify-write, exists/get/compute/set)   *)
(* implements it under every interleaving.                                 *)
(***************************************************************************)
EXTENDS RuntimeMachine

CONSTANTS Keys,   \* overload aliases that may be registered on the shared dataset
          Vals    \* option values the shared cached dataset is evaluated under

VARIABLES tab,    \* aliases registered on the shared dataset
          store,  \* option values for which the shared cached dataset holds an entry
          pend    \* [Threads -> operation in progress]

NoOp == [k |-> "none"]
tvars == <<vars, tab, store, pend>>

TInit ==
    /\ Init
    /\ tab = {}
    /\ store = {}
    /\ pend = [t \in Threads |-> NoOp]

Call(t, op) ==
    /\ pend[t].k = "none"
    /\ pend' = [pend EXCEPT ![t] = [st |-> "called"] @@ op]
    /\ UNCHANGED <<vars, tab, store>>

Done(t, res) == pend' = [pend EXCEPT ![t] = [st |-> "done", res |-> res] @@ pend[t]]

\* the atomic effect of the pending operation of t
Lin(t) ==
    LET op == pend[t] IN
    /\ op.k # "none" /\ op.st = "called"
    /\ \/ /\ op.k = "Create" /\ Create(t, op.tys) /\ Done(t, nrt + 1)
          /\ UNCHANGED <<tab, store>>
       \/ /\ op.k = "Derive" /\ Derive(t, op.src, op.tys) /\ Done(t, nrt + 1)
          /\ UNCHANGED <<tab, store>>
       \/ /\ op.k = "HandleCurrent" /\ HandleCurrent(t, op.tys) /\ Done(t, nrt + 1)
          /\ UNCHANGED <<tab, store>>
       \/ /\ op.k = "Enter" /\ Enter(t, op.r) /\ Done(t, "ok")
          /\ UNCHANGED <<tab, store>>
       \/ /\ op.k = "Exit" /\ Exit(t, op.how) /\ Done(t, "ok")
          /\ UNCHANGED <<tab, store>>
       \/ /\ op.k = "Probe" /\ Probe(t) /\ Done(t, Srv[t])
          /\ UNCHANGED <<tab, store>>
       \/ /\ op.k = "Inherit" /\ Inherit(t, op.p) /\ Done(t, "ok")
          /\ UNCHANGED <<tab, store>>
       \/ /\ op.k = "RegisterDefault" /\ RegisterDefault(t, op.ty) /\ Done(t, "ok")
          /\ UNCHANGED <<tab, store>>
       \* overloads: all registrations are kept
       \/ /\ op.k = "Register" /\ tab' = tab \cup {op.key} /\ Done(t, "ok")
          /\ UNCHANGED <<vars, store>>
       \* evaluating the dispatching dataset under alias `key`
       \/ /\ op.k = "Lookup" /\ Done(t, IF op.key \in tab THEN op.key ELSE "default")
          /\ UNCHANGED <<vars, tab, store>>
       \* evaluating the cached dataset under option value `val`: always its own value
       \/ /\ op.k = "EvalCached" /\ store' = store \cup {op.val} /\ Done(t, op.val)
          /\ UNCHANGED <<vars, tab>>

Ret(t, res) ==
    /\ pend[t].k # "none" /\ pend[t].st = "done" /\ pend[t].res = res
    /\ pend' = [pend EXCEPT ![t] = NoOp]
    /\ UNCHANGED <<vars, tab, store>>

=============================================================================
