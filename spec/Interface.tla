------------------------------ MODULE Interface ------------------------------
(***************************************************************************)
(* C07 (interfaces): an interface is a set of member datasets sharing one  *)
(* dispatch; an implementation registers, for each alias, an overload for  *)
(* every member it provides.  It is rejected as a whole -- when it is      *)
(* defined, registering nothing -- if it omits a member that is abstract   *)
(* in some interface it implements, or names a member no interface has.    *)
(* Two interfaces (I1: members a (abstract), d (has a default);            *)
(* I2: members a (abstract), e (default)) so that a multi-interface        *)
(* implementation and a member name shared by two interfaces are covered.  *)
(***************************************************************************)
EXTENDS Naturals, Sequences, FiniteSets, TLC

CONSTANTS Aliases, MaxImpls

Ifaces == {"I1", "I2"}
MembersOf(i) == IF i = "I1" THEN {"a", "d"} ELSE {"a", "e"}
Abstract(i, m) == m = "a"
Names == {"a", "d", "e", "zz"}          \* zz: a name no interface has

VARIABLES tab,     \* [<<iface, member>> -> [Aliases -> implementation id or 0]]
          nimpl,   \* implementations defined (accepted or rejected) so far
          act

Slots == {<<i, m>> : i \in Ifaces, m \in {"a", "d", "e"}} \cap {s \in (Ifaces \X {"a", "d", "e"}) : s[2] \in MembersOf(s[1])}
abs == <<tab, nimpl>>
vars == <<tab, nimpl, act>>

Init ==
    /\ tab = [s \in Slots |-> [al \in Aliases |-> 0]]
    /\ nimpl = 0
    /\ act = [a |-> "Init"]

\* what evaluating member m of interface i yields under dispatch value al ("-" = unregistered value)
Resolve(t, i, m, al) ==
    IF al \in Aliases /\ t[<<i, m>>][al] # 0 THEN "impl" \o ToString(t[<<i, m>>][al]) \o ":" \o m
    ELSE IF Abstract(i, m) THEN "SwitchError" ELSE "default:" \o i \o "." \o m

Observation(t) == [s \in Slots |-> [al \in Aliases \cup {"-"} |-> Resolve(t, s[1], s[2], al)]]

\* @implements(ifs, alias=als) class X: <provides>
Define(ifs, als, provides) ==
    /\ nimpl < MaxImpls /\ ifs # {} /\ als # {}
    /\ LET members == UNION {MembersOf(i) : i \in ifs}
           unknown == provides \ members
           missing == {m \in members : (\E i \in ifs : m \in MembersOf(i) /\ Abstract(i, m)) /\ m \notin provides}
           ok == unknown = {} /\ missing = {} IN
       /\ tab' = IF ok
                 THEN [s \in Slots |-> IF s[1] \in ifs /\ s[2] \in provides
                                       THEN [al \in Aliases |-> IF al \in als THEN nimpl + 1 ELSE tab[s][al]]
                                       ELSE tab[s]]
                 ELSE tab
       /\ nimpl' = nimpl + 1
       /\ act' = [a |-> "Define", id |-> nimpl + 1, ifs |-> ifs, als |-> als, provides |-> provides,
                  accepted |-> ok, obs |-> Observation(tab')]

Next == \E ifs \in SUBSET Ifaces, als \in SUBSET Aliases, pr \in SUBSET Names : Define(ifs, als, pr)
Spec == Init /\ [][Next]_vars

\* under one alias, the members an accepted implementation provided resolve to that implementation
\* a rejected definition registers nothing
RejectAtomic == [][(act'.a = "Define" /\ ~act'.accepted) => tab' = tab]_vars
\* an accepted one registers every provided member under every alias
AcceptComplete ==
    [][(act'.a = "Define" /\ act'.accepted) =>
          \A i \in act'.ifs : \A m \in act'.provides \cap MembersOf(i) : \A al \in act'.als : tab'[<<i, m>>][al] = act'.id]_vars
View == abs
=============================================================================
