---------------------------- MODULE MC_Interface ----------------------------
EXTENDS Interface, Json, IOUtils
A2 == {"p", "q"}
Emit == PrintT("EDGE " \o ToJson([f |-> abs, a |-> act', t |-> abs']))
=============================================================================
