--------------------------- MODULE RuntimeMachine ---------------------------
(***************************************************************************)
(* Abstract machine of labrea's handler runtime (labrea/runtime.py), as    *)
(* the API documents it and as properties C14 / C15 state it.              *)
(*                                                                         *)
(* A runtime object holds handlers *explicitly* (those passed to           *)
(* Runtime(...) or added by handle()); defaults live in one global table   *)
(* that is consulted when the request is run ("whenever it was             *)
(* registered").  Every thread has a stack of entered runtimes; the        *)
(* bottom of the stack is the runtime the thread inherited (0 = none).     *)
(*                                                                         *)
(* One action per public operation.  `act` records the last action with    *)
(* its arguments and the observation the specification prescribes for it;  *)
(* it is hidden by the VIEW in model-checking configurations and is what   *)
(* the conformance harness replays / validates.                            *)
(***************************************************************************)
EXTENDS Naturals, Sequences, FiniteSets, TLC

CONSTANTS
    Threads,        \* thread names (strings)
    ReqTypes,       \* request type names (strings)
    InitDefaults,   \* subset of ReqTypes with a default registered before the history
    LateTypes,      \* subset of ReqTypes whose default may be registered during the history
    OverrideSets,   \* the sets of request types a Create / Derive / HandleCurrent may name
    MaxRt,          \* number of runtime objects that can be created
    MaxDepth        \* maximal nesting of entered runtimes per thread

NoH     == "-"            \* "holds no handler for this type"
TypeErr == "TypeError"
DefaultTag(ty) == "d:" \o ty
HandlerTag(r, ty) == "h" \o ToString(r) \o ":" \o ty

RtIds == 1 .. MaxRt

VARIABLES
    defaults,   \* [ReqTypes -> BOOLEAN]       is a default registered (now)?
    held,       \* [RtIds -> [ReqTypes -> STRING]]  explicit handlers of each runtime object
    nrt,        \* number of runtime objects created so far
    stack,      \* [Threads -> Seq(RtIds)]     entered, not yet exited (innermost last)
    base,       \* [Threads -> 0 .. MaxRt]     runtime inherited from a parent (0 = none)
    prior,      \* ghost: [Threads -> Seq(0..MaxRt)] runtime that was current before each Enter
    act         \* last action + prescribed observation (history variable)

abs  == <<defaults, held, nrt, stack, base>>
vars == <<defaults, held, nrt, stack, base, prior, act>>

Last(s) == s[Len(s)]
Front(s) == SubSeq(s, 1, Len(s) - 1)

Cur(t) == IF stack[t] # <<>> THEN Last(stack[t]) ELSE base[t]

ServedIn(r, ty, dfl, hl) ==
    IF r # 0 /\ hl[r][ty] # NoH THEN hl[r][ty]
    ELSE IF dfl[ty] THEN DefaultTag(ty) ELSE TypeErr

Served(t, ty) == ServedIn(Cur(t), ty, defaults, held)

\* the observation vector: what every thread would get for every type now
Srv == [t \in Threads |-> [ty \in ReqTypes |-> Served(t, ty)]]

\* A handler is user code and may raise.  The exception of the handler that serves the request reaches the
\* caller; the request is NOT passed on to another handler (in particular not to the default, even when
\* the exception is a KeyError, the exception the runtime's own table lookups use internally).
Raised(tag) == "KeyError<" \o tag \o ">"
SrvX == [t \in Threads |-> [ty \in ReqTypes |->
            IF Served(t, ty) = TypeErr THEN TypeErr ELSE Raised(Served(t, ty))]]

NoHeld == [ty \in ReqTypes |-> NoH]

Init ==
    /\ defaults = [ty \in ReqTypes |-> ty \in InitDefaults]
    /\ held = [r \in RtIds |-> NoHeld]
    /\ nrt = 0
    /\ stack = [t \in Threads |-> <<>>]
    /\ base = [t \in Threads |-> 0]
    /\ prior = [t \in Threads |-> <<>>]
    /\ act = [a |-> "Init"]

\* cur: which runtime object is current in every thread afterwards (0 = the thread's own implicit runtime)
Observe(a) == act' = a @@ [srv |-> Srv', srvx |-> SrvX', cur |-> [t \in Threads |-> Cur(t)']]

\* Runtime({ty: handler ...}) built directly from explicit handlers
Create(t, tys) ==
    /\ nrt < MaxRt
    /\ nrt' = nrt + 1
    /\ held' = [held EXCEPT ![nrt + 1] =
                   [ty \in ReqTypes |-> IF ty \in tys THEN HandlerTag(nrt + 1, ty) ELSE NoH]]
    /\ UNCHANGED <<defaults, stack, base, prior>>
    /\ Observe([a |-> "Create", t |-> t, r |-> nrt + 1, tys |-> tys])

\* src.handle(...) : a NEW runtime holding src's handlers plus the overrides
Derive(t, src, tys) ==
    /\ nrt < MaxRt /\ src \in 1 .. nrt /\ tys # {}
    /\ nrt' = nrt + 1
    /\ held' = [held EXCEPT ![nrt + 1] =
                   [ty \in ReqTypes |-> IF ty \in tys THEN HandlerTag(nrt + 1, ty)
                                        ELSE held[src][ty]]]
    /\ UNCHANGED <<defaults, stack, base, prior>>
    /\ Observe([a |-> "Derive", t |-> t, r |-> nrt + 1, src |-> src, tys |-> tys])

\* labrea.runtime.handle(...) : derive from whatever is current in thread t
HandleCurrent(t, tys) ==
    /\ nrt < MaxRt /\ tys # {}
    /\ nrt' = nrt + 1
    /\ held' = [held EXCEPT ![nrt + 1] =
                   [ty \in ReqTypes |-> IF ty \in tys THEN HandlerTag(nrt + 1, ty)
                                        ELSE IF Cur(t) = 0 THEN NoH ELSE held[Cur(t)][ty]]]
    /\ UNCHANGED <<defaults, stack, base, prior>>
    /\ Observe([a |-> "HandleCurrent", t |-> t, r |-> nrt + 1, tys |-> tys])

Enter(t, r) ==
    /\ r \in 1 .. nrt /\ Len(stack[t]) < MaxDepth
    /\ stack' = [stack EXCEPT ![t] = Append(@, r)]
    /\ prior' = [prior EXCEPT ![t] = Append(@, Cur(t))]
    /\ UNCHANGED <<defaults, held, nrt, base>>
    /\ Observe([a |-> "Enter", t |-> t, r |-> r])

\* leaving the innermost block, normally or because an exception propagates
Exit(t, how) ==
    /\ stack[t] # <<>>
    /\ stack' = [stack EXCEPT ![t] = Front(@)]
    /\ prior' = [prior EXCEPT ![t] = Front(@)]
    /\ UNCHANGED <<defaults, held, nrt, base>>
    /\ Observe([a |-> "Exit", t |-> t, r |-> Last(stack[t]), how |-> how])

RegisterDefault(t, ty) ==
    /\ ty \in LateTypes /\ ~defaults[ty]
    /\ defaults' = [defaults EXCEPT ![ty] = TRUE]
    /\ UNCHANGED <<held, nrt, stack, base, prior>>
    /\ Observe([a |-> "RegisterDefault", t |-> t, ty |-> ty])

\* run one request of every type in thread t (the only action with a result)
Probe(t) ==
    /\ UNCHANGED <<defaults, held, nrt, stack, base, prior>>
    /\ Observe([a |-> "Probe", t |-> t])

\* worker t (no contexts entered) adopts what parent p has at this moment
Inherit(t, p) ==
    /\ t # p /\ stack[t] = <<>>
    /\ base' = [base EXCEPT ![t] = Cur(p)]
    /\ UNCHANGED <<defaults, held, nrt, stack, prior>>
    /\ Observe([a |-> "Inherit", t |-> t, p |-> p])

Next ==
    \E t \in Threads :
        \/ \E tys \in OverrideSets \cup {{}} : Create(t, tys)
        \/ \E src \in RtIds, tys \in OverrideSets : Derive(t, src, tys)
        \/ \E tys \in OverrideSets : HandleCurrent(t, tys)
        \/ \E r \in RtIds : Enter(t, r)
        \/ \E how \in {"normal", "exception"} : Exit(t, how)
        \/ \E ty \in ReqTypes : RegisterDefault(t, ty)
        \/ Probe(t)
        \/ \E p \in Threads : Inherit(t, p)

Spec == Init /\ [][Next]_vars

-----------------------------------------------------------------------------
(* Properties (C14, C15) *)

TypeOK ==
    /\ nrt \in 0 .. MaxRt
    /\ \A t \in Threads : Len(stack[t]) <= MaxDepth /\ Len(prior[t]) = Len(stack[t])
    /\ \A t \in Threads : \A i \in 1 .. Len(stack[t]) : stack[t][i] \in 1 .. nrt

\* C14: the request is served by the innermost entered runtime, else by the default, else TypeError
ServedByTop ==
    \A t \in Threads, ty \in ReqTypes :
        LET r == Cur(t) IN
        /\ (r # 0 /\ held[r][ty] # NoH) => Served(t, ty) = held[r][ty]
        /\ (r = 0 \/ held[r][ty] = NoH) /\ defaults[ty] => Served(t, ty) = DefaultTag(ty)
        /\ (r = 0 \/ held[r][ty] = NoH) /\ ~defaults[ty] => Served(t, ty) = TypeErr

\* C14: leaving a block restores exactly the runtime that was current before it was entered
ExitRestores ==
    [][\A t \in Threads :
          (Len(stack'[t]) < Len(stack[t])) => Cur(t)' = Last(prior[t])]_vars

PriorConsistent ==
    \A t \in Threads : \A i \in 1 .. Len(stack[t]) :
        prior[t][i] = (IF i = 1 THEN base[t] ELSE stack[t][i - 1])

\* C14: deriving never alters an existing runtime object
DeriveIsPure == [][\A r \in 1 .. nrt : held'[r] = held[r]]_vars

\* C14: a default registered at any time serves every runtime that does not hold the type
LateDefaultServes ==
    \A t \in Threads, ty \in ReqTypes :
        defaults[ty] => Served(t, ty) # TypeErr

\* C15: what one thread does never changes what another thread is served
ThreadLocal ==
    [][\A u \in Threads :
          (act'.t # u /\ act'.a # "RegisterDefault") =>
              \A ty \in ReqTypes : Served(u, ty)' = Served(u, ty)]_vars

\* C15: inherit() is a snapshot of the parent at that moment
InheritSnapshot ==
    [][(act'.a = "Inherit") =>
          \A ty \in ReqTypes : Srv'[act'.t][ty] = Srv'[act'.p][ty]]_vars

=============================================================================
