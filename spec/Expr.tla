-------------------------------- MODULE Expr --------------------------------
(***************************************************************************)
(* Reference semantics of labrea expressions: what evaluate / validate /   *)
(* keys / explain of every node kind must yield for an options dictionary. *)
(* Big-step and memo-free ("the equivalent eager Python computation").     *)
(* These operators state the REQUIRED behaviour (the properties C01..C12   *)
(* hold of them, which TLC checks in MC_Expr); they are not copied from    *)
(* the code.  Bodies, callbacks, steps are uninterpreted constructors:     *)
(* body f on <<x,y>> yields the term T(f,<<x,y>>), or raises if the pair   *)
(* is in Raises.                                                           *)
(*                                                                         *)
(* The graph is the sequence `nodes`; a node refers to children by index   *)
(* (0 = none); `tabs` are the overload tables (shared by a dataset and its *)
(* with_options derivatives).                                              *)
(***************************************************************************)
EXTENDS Values

CONSTANT Raises      \* set of <<callable id, argument tuple>> on which the callable raises

VARIABLES nodes, tabs

-----------------------------------------------------------------------------
(* Outcomes *)
Ok(v) == [ok |-> TRUE, v |-> v]
OkK(ks) == [ok |-> TRUE, ks |-> ks]
OkV == [ok |-> TRUE]
Fail(cls, keys, x) == [ok |-> FALSE, cls |-> cls, keys |-> keys, x |-> x]
KeyNotFound(keys) == Fail("KeyNotFound", keys, "")
UserErr(x) == Fail("User", {}, x)

\* predicate values: [t |-> "P", pred, arg]
Pv(pred, arg) == [t |-> "P", pred |-> pred, arg |-> arg]

Truthy(v) ==
    CASE v.t = "b" -> v.b
      [] v.t = "i" -> v.i # 0
      [] v.t = "n" -> FALSE
      [] v.t = "s" -> v.s # <<>>
      [] v.t \in {"l", "u"} -> v.l # <<>>
      [] v.t = "d" -> DOMAIN v.d # {}       \* an empty section / set is falsy like every empty container
      [] v.t = "e" -> v.e # {}
      [] OTHER -> TRUE

PredHolds(p, x) ==     \* p a "P" value
    CASE p.pred = "eq" -> x = p.arg
      [] p.pred = "ne" -> x # p.arg
      [] p.pred = "truthy" -> Truthy(x)
      [] p.pred = "always" -> TRUE
      [] p.pred = "never" -> FALSE
      [] OTHER -> FALSE
PredRaises(p, x) == p.pred = "raise"

\* Python hashability: dispatch values, set members and dict keys must be hashable
RECURSIVE Hashable(_)
Hashable(v) ==
    CASE v.t \in {"i", "b", "n", "s"} -> TRUE
      [] v.t = "u" -> \A i \in 1 .. Len(v.l) : Hashable(v.l[i])
      [] v.t = "T" -> \A i \in 1 .. Len(v.a) : Hashable(v.a[i])
      [] OTHER -> FALSE
\* ill-typed programs (an unhashable dispatch value, a non-iterable Map source, ...) are outside
\* the quantifier of every property: the outcome is marked and the conformance step skips the case
IllTyped == Fail("IllTyped", {}, "")

InContainer(c, x) == \E i \in 1 .. Len(c.l) : c.l[i] = x

\* the callable "none" returns None (a legitimate value that must be memoised like any other)
Call(f, args) == IF <<f, args>> \in Raises THEN UserErr(f) ELSE IF f = "none" THEN Ok(Nv) ELSE Ok(Tv(f, args))

Dotted(p) == LET RECURSIVE J(_) J(i) == IF i = Len(p) THEN p[i] ELSE p[i] \o "." \o J(i + 1) IN J(1)

SeqToSet(s) == {s[i] : i \in 1 .. Len(s)}

\* lookup in a <<[v, n]>> table (first match)
TabFind(lk, v) ==
    LET hits == {i \in 1 .. Len(lk) : lk[i].v = v} IN
    IF hits = {} THEN 0 ELSE lk[CHOOSE i \in hits : \A j \in hits : i <= j].n

Overlay(nd, o) == IF nd.force THEN Mix(o, nd.q) ELSE Mix(nd.q, o)

\* the effective lookup table of a dataset: its overload table at this moment
DsTable(nd) == IF nd.tab = 0 THEN <<>> ELSE tabs[nd.tab]

\* with_options / with_default_options derivatives ("dsof") are the same dataset (same tables,
\* callback, effects, cache) with further pre-set / default options mixed in
RECURSIVE NodeRec(_)
NodeRec(n) ==
    LET r == nodes[n] IN
    IF r.k # "dsof" THEN r
    ELSE LET b == NodeRec(r.base) IN
         IF r.mode = "force" THEN [b EXCEPT !.q = Mix(b.q, r.q2)] ELSE [b EXCEPT !.dd = Mix(b.dd, r.q2)]

-----------------------------------------------------------------------------
RECURSIVE Eval(_, _), Validate(_, _), KeysOf(_, _), Explain(_, _), Lazy(_, _)

\* evaluate a sequence of nodes in order; first failure wins
EvalSeq(ns, o) ==
    LET rs == [i \in 1 .. Len(ns) |-> Eval(ns[i], o)]
        bad == {i \in 1 .. Len(ns) : ~rs[i].ok} IN
    IF bad = {} THEN Ok(TLCEval([i \in 1 .. Len(ns) |-> rs[i].v]))
    ELSE rs[CHOOSE i \in bad : \A j \in bad : i <= j]

ValidateSeq(ns, o) ==
    LET rs == [i \in 1 .. Len(ns) |-> Validate(ns[i], o)]
        bad == {i \in 1 .. Len(ns) : ~rs[i].ok} IN
    IF bad = {} THEN OkV ELSE rs[CHOOSE i \in bad : \A j \in bad : i <= j]

UnionK(rs) ==  \* rs: sequence of keys/explain outcomes
    LET bad == {i \in 1 .. Len(rs) : ~rs[i].ok} IN
    IF bad = {} THEN OkK(UNION {rs[i].ks : i \in 1 .. Len(rs)})
    ELSE rs[CHOOSE i \in bad : \A j \in bad : i <= j]

KeysSeq(ns, o) == UnionK([i \in 1 .. Len(ns) |-> KeysOf(ns[i], o)])
ExplainSeq(ns, o) == UnionK([i \in 1 .. Len(ns) |-> Explain(ns[i], o)])

\* cartesian product of a sequence of lists, row-major (itertools.product)
RECURSIVE Product(_)
Product(ls) ==
    IF ls = <<>> THEN << <<>> >>
    ELSE LET rest == Product(Tail(ls)) IN
         Cat([i \in 1 .. Len(Head(ls)) |-> [j \in 1 .. Len(rest) |-> <<Head(ls)[i]>> \o rest[j]]])

\* Map: the assignment dictionaries of the product, in order
MapCombos(nd, o) ==   \* Ok(<<combo>>) or failure; combo = [flat, nested]
    LET its == EvalSeq([i \in 1 .. Len(nd.its) |-> nd.its[i].n], o) IN
    IF ~its.ok THEN its
    ELSE IF \E i \in 1 .. Len(its.v) : its.v[i].t \notin {"l", "u"} THEN IllTyped
    ELSE LET prod == Product([i \in 1 .. Len(its.v) |-> its.v[i].l]) IN
         Ok([c \in 1 .. Len(prod) |->
              [flat |-> Dv([k \in {Dotted(nd.its[i].p) : i \in 1 .. Len(nd.its)} |->
                            prod[c][CHOOSE i \in 1 .. Len(nd.its) : Dotted(nd.its[i].p) = k]]),
               \* later keys are set after earlier ones (set_dotted_key in order)
               nested |-> LET RECURSIVE M(_, _) M(i, acc) == IF i > Len(nd.its) THEN acc
                                                             ELSE M(i + 1, Mix(acc, Nest(nd.its[i].p, prod[c][i]))) IN
                          M(1, EmptyD)]])

\* which keys of the inner object's key set a wrapper reports to its caller
WithFilter(ks, nd, o) ==
    {k \in ks : Has(k, o) /\ ~(nd.force /\ Has(k, nd.q) /\ Get(k, nd.q).t # "d")}
WithFilterX(ks, nd, o) ==   \* explain: absent keys are kept unless the pre-set dictionary fixes them
    {k \in ks : ~(Has(k, nd.q) /\ (IF nd.force THEN Get(k, nd.q).t # "d" \/ ~Has(k, o) ELSE ~Has(k, o)))}

\* --- datasets ------------------------------------------------------------------------
\* options as seen inside the dataset: defaults yield to the caller, pre-set options override
DsOptions(nd, o) == Mix(Mix(nd.dd, o), nd.q)
DsWithD(nd) == [force |-> FALSE, q |-> nd.dd]
DsWithQ(nd) == [force |-> TRUE, q |-> nd.q]

\* the implementation selected under options o2 (already overlaid): [ok, n, viaDispatch] or failure
DsSelect(nd, o2) ==
    IF nd.disp = 0
    THEN IF nd.dflt = 0 THEN Fail("Switch", {}, "") ELSE [ok |-> TRUE, n |-> nd.dflt, dep |-> FALSE]
    ELSE IF Lazy(nd.disp, o2) THEN IllTyped      \* a one-shot iterator is no dispatch value
    ELSE LET dv == Eval(nd.disp, o2) IN
         IF ~dv.ok THEN (IF nd.dflt = 0 \/ dv.cls = "IllTyped" THEN dv ELSE [ok |-> TRUE, n |-> nd.dflt, dep |-> FALSE])
         ELSE IF ~Hashable(dv.v) THEN IllTyped
         ELSE LET hit == TabFind(DsTable(nd), dv.v) IN
              IF hit # 0 THEN [ok |-> TRUE, n |-> hit, dep |-> TRUE]
              ELSE IF nd.dflt = 0 THEN Fail("Switch", {}, "") ELSE [ok |-> TRUE, n |-> nd.dflt, dep |-> TRUE]

ApplyCb(nd, v) == IF nd.cb = "" THEN Ok(v) ELSE Call(nd.cb, <<v>>)

\* the effect named "ep" has a parameter read from option EP at evaluation time (like a helper step
\* with an option-valued argument); every other effect is a constant callable
EffParam == <<"EP">>
EffMissing(nd, o2) == \E i \in 1 .. Len(nd.effs) : nd.effs[i] = "ep" /\ ~Has(EffParam, o2)
EffKeys(nd, o2) == IF \E i \in 1 .. Len(nd.effs) : nd.effs[i] = "ep" THEN {EffParam} ELSE {}

EffectsOn(nd, o2) ==   \* effects run unless disabled by option or per dataset
    LET sw == Get(<<"LABREA", "EFFECTS", "DISABLED">>, o2) IN
    ~nd.effoff /\ ~(~IsAbsent(sw) /\ Truthy(sw))

-----------------------------------------------------------------------------
Eval(n, o) ==
    LET nd == NodeRec(n) IN
    CASE nd.k = "val" -> Ok(nd.v)
      [] nd.k = "allopts" ->      \* AllOptions: the whole dictionary, resolved
            LET r == Resolve(o, o) IN IF IsErr(r) THEN KeyNotFound(r.keys) ELSE Ok(r)
      [] nd.k = "opt" ->
            LET raw == Get(nd.p, o)
                got == IF ~IsAbsent(raw)
                       THEN LET r == Resolve(raw, o) IN IF IsErr(r) THEN KeyNotFound(r.keys) ELSE Ok(r)
                       ELSE IF nd.d # 0 THEN Eval(nd.d, o) ELSE KeyNotFound({nd.p}) IN
            IF ~got.ok \/ nd.dom = 0 THEN got
            ELSE LET dm == Eval(nd.dom, o) IN
                 IF ~dm.ok THEN dm
                 ELSE IF dm.v.t = "P"
                      THEN IF PredRaises(dm.v, got.v) THEN UserErr("pred")
                           ELSE IF PredHolds(dm.v, got.v) THEN got ELSE Fail("Domain", {}, "")
                      ELSE IF dm.v.t \in {"l", "u"}
                           THEN IF InContainer(dm.v, got.v) THEN got ELSE Fail("Domain", {}, "")
                           ELSE got
      [] nd.k = "pred" ->
            LET a == Eval(nd.arg, o) IN IF ~a.ok THEN a ELSE Ok(Pv(nd.pred, a.v))
      [] nd.k = "tmpl" ->
            LET ps == EvalSeq([i \in 1 .. Len(nd.ps) |-> nd.ps[i].n], o) IN
            IF ~ps.ok THEN ps
            ELSE LET o2 == Mix(o, Dv([k \in {":" \o nd.ps[i].name \o ":" : i \in 1 .. Len(nd.ps)} |->
                                       ps.v[CHOOSE i \in 1 .. Len(nd.ps) : ":" \o nd.ps[i].name \o ":" = k]]))
                     r == Resolve(Sv(nd.s), o2) IN
                 IF IsErr(r) THEN KeyNotFound(r.keys) ELSE Ok(Sv(StrToks(r)))
      [] nd.k = "apply" ->     \* the source is produced first, then the step (and its parameter), then it is applied
            LET s == Eval(nd.src, o) IN
            IF ~s.ok THEN s
            ELSE IF nd.fp = 0 THEN Call(nd.f, <<s.v>>)
            ELSE LET p == Eval(nd.fp, o) IN IF ~p.ok THEN p ELSE Call(nd.f, <<s.v, p.v>>)
      [] nd.k = "bind" ->
            IF Lazy(nd.src, o) THEN IllTyped ELSE      \* a one-shot iterator is no value to bind / match on
            LET s == Eval(nd.src, o) IN
            IF ~s.ok THEN s
            ELSE LET hit == TabFind(nd.lk, s.v)
                     tgt == IF hit # 0 THEN hit ELSE nd.other IN
                 IF tgt = 0 THEN UserErr("bindfn") ELSE Eval(tgt, o)
      [] nd.k = "switch" ->
            LET dv == Eval(nd.d, o) IN
            IF Lazy(nd.d, o) THEN IllTyped      \* a one-shot iterator (Iter / Map) is no dispatch value
            ELSE IF ~dv.ok THEN (IF nd.dflt = 0 \/ dv.cls = "IllTyped" THEN dv ELSE Eval(nd.dflt, o))
            ELSE IF ~Hashable(dv.v) THEN IllTyped
            ELSE LET hit == TabFind(nd.lk, dv.v) IN
                 IF hit # 0 THEN Eval(hit, o)
                 ELSE IF nd.dflt = 0 THEN Fail("Switch", {}, "") ELSE Eval(nd.dflt, o)
      [] nd.k = "case" ->
            IF Lazy(nd.d, o) THEN IllTyped ELSE      \* a one-shot iterator is no value to bind / match on
            LET dv == Eval(nd.d, o) IN
            IF ~dv.ok THEN dv
            ELSE LET RECURSIVE Go(_)
                     Go(i) == IF i > Len(nd.cases)
                              THEN IF nd.dflt = 0 THEN Fail("CaseWhen", {}, "") ELSE Eval(nd.dflt, o)
                              ELSE LET c == Eval(nd.cases[i].c, o) IN
                                   IF ~c.ok THEN c
                                   ELSE IF PredRaises(c.v, dv.v) THEN UserErr("pred")
                                   ELSE IF PredHolds(c.v, dv.v) THEN Eval(nd.cases[i].n, o) ELSE Go(i + 1)
                 IN Go(1)
      [] nd.k = "coalesce" ->
            LET RECURSIVE Go(_, _)
                Go(i, last) == IF i > Len(nd.ms) THEN last
                               ELSE LET v == Validate(nd.ms[i], o) IN
                                    IF ~v.ok THEN (IF v.cls = "IllTyped" THEN v ELSE Go(i + 1, v))
                                    ELSE LET e == Eval(nd.ms[i], o) IN
                                         IF e.ok \/ e.cls = "IllTyped" THEN e ELSE Go(i + 1, e)
            IN Go(1, UserErr("empty"))
      [] nd.k = "coll" ->     \* Iter and the list / tuple / set / dict collections
            LET vs == EvalSeq(nd.ms, o) IN
            IF nd.c = "set" /\ \E i \in 1 .. Len(nd.ms) : LET r == Eval(nd.ms[i], o) IN r.ok /\ ~Hashable(r.v)
            THEN IllTyped     \* set() consumes the members lazily: an unhashable one is a type error of the program
            ELSE IF ~vs.ok THEN vs
            ELSE (CASE nd.c = "iter" -> Ok(Lv(vs.v))
                   [] nd.c = "list" -> Ok(Lv(vs.v))
                   [] nd.c = "tuple" -> Ok([t |-> "u", l |-> TLCEval(vs.v)])
                   [] nd.c = "set" -> IF \A i \in 1 .. Len(vs.v) : Hashable(vs.v[i])
                                      THEN Ok([t |-> "e", e |-> SeqToSet(vs.v)]) ELSE IllTyped
                   [] nd.c = "dict" -> Ok(Dv([k \in SeqToSet(nd.names) |->
                                              vs.v[CHOOSE i \in 1 .. Len(nd.names) :
                                                      nd.names[i] = k /\ \A j \in 1 .. Len(nd.names) : nd.names[j] = k => j <= i]])))
      [] nd.k = "map" ->
            LET cs == MapCombos(nd, o) IN
            IF ~cs.ok THEN cs
            ELSE LET rs == [c \in 1 .. Len(cs.v) |-> Eval(nd.inner, Mix(o, cs.v[c].nested))]
                     bad == {c \in 1 .. Len(cs.v) : ~rs[c].ok} IN
                 IF bad # {} THEN rs[CHOOSE c \in bad : \A j \in bad : c <= j]
                 ELSE Ok(Lv([c \in 1 .. Len(cs.v) |-> [t |-> "u", l |-> <<cs.v[c].flat, rs[c].v>>]]))
      [] nd.k = "with" -> Eval(nd.inner, Overlay(nd, o))
      [] nd.k = "cached" -> Eval(nd.inner, o)
      [] nd.k = "logged" -> Eval(nd.inner, o)
      [] nd.k = "ds" ->
            LET o2 == DsOptions(nd, o)
                sel == DsSelect(nd, o2) IN
            IF ~sel.ok THEN sel
            ELSE LET r == Eval(sel.n, o2) IN
                 IF ~r.ok THEN r
                 ELSE LET c == ApplyCb(nd, r.v) IN
                      IF ~c.ok \/ ~EffectsOn(nd, o2) THEN c
                      ELSE IF EffMissing(nd, o2) THEN KeyNotFound({EffParam})
                      ELSE LET RECURSIVE Eff(_)
                               Eff(i) == IF i > Len(nd.effs) THEN c
                                         ELSE IF <<nd.effs[i], <<c.v>>>> \in Raises THEN UserErr(nd.effs[i])
                                         ELSE Eff(i + 1)
                           IN Eff(1)
      [] nd.k = "fnapp" ->    \* FunctionApplication(body, args...): the default implementation of a dataset
            LET as == EvalSeq(nd.args, o) IN IF ~as.ok THEN as ELSE Call(nd.f, as.v)

-----------------------------------------------------------------------------
Validate(n, o) ==
    LET nd == NodeRec(n) IN
    CASE nd.k = "val" -> OkV
      [] nd.k = "allopts" -> LET r == Resolve(o, o) IN IF IsErr(r) THEN KeyNotFound(r.keys) ELSE OkV
      [] nd.k = "opt" ->
            IF Has(nd.p, o)
            THEN LET e == Eval(n, o) IN IF e.ok THEN OkV ELSE e
            ELSE IF nd.d # 0
                 THEN LET v == Validate(nd.d, o) IN
                      \* the domain is consulted by evaluate whatever the source of the value:
                      \* its options are validated too (C10)
                      IF ~v.ok \/ nd.dom = 0 THEN v ELSE Validate(nd.dom, o)
                 ELSE KeyNotFound({nd.p})
      [] nd.k = "pred" -> Validate(nd.arg, o)
      [] nd.k = "tmpl" ->
            LET ps == ValidateSeq([i \in 1 .. Len(nd.ps) |-> nd.ps[i].n], o) IN
            IF ~ps.ok THEN ps
            ELSE LET refs == {p \in RefsOf(nd.s) : \A i \in 1 .. Len(nd.ps) : p # <<":" \o nd.ps[i].name \o ":">>}
                     missing == {p \in refs : ~Has(p, o)} IN
                 \* references are checked in no particular order: any missing key may be the one reported
                 LET bad == {p \in refs \ missing : IsErr(Resolve(Get(p, o), o))}
                     all == missing \cup UNION {Resolve(Get(p, o), o).keys : p \in bad} IN
                 IF all = {} THEN OkV ELSE KeyNotFound(all)
      [] nd.k = "apply" -> LET v == Validate(nd.src, o) IN IF ~v.ok \/ nd.fp = 0 THEN v ELSE Validate(nd.fp, o)
      [] nd.k = "bind" ->
            IF Lazy(nd.src, o) THEN IllTyped ELSE      \* a one-shot iterator is no value to bind / match on
            LET v == Validate(nd.src, o) IN
            IF ~v.ok THEN v
            ELSE LET s == Eval(nd.src, o) IN
                 IF ~s.ok THEN s
                 ELSE LET hit == TabFind(nd.lk, s.v)
                          tgt == IF hit # 0 THEN hit ELSE nd.other IN
                      IF tgt = 0 THEN UserErr("bindfn") ELSE Validate(tgt, o)
      [] nd.k = "switch" ->
            LET dv == Eval(nd.d, o) IN
            IF Lazy(nd.d, o) THEN IllTyped      \* a one-shot iterator (Iter / Map) is no dispatch value
            ELSE IF ~dv.ok THEN (IF nd.dflt = 0 \/ dv.cls = "IllTyped" THEN dv ELSE Validate(nd.dflt, o))
            ELSE IF ~Hashable(dv.v) THEN IllTyped
            ELSE LET hit == TabFind(nd.lk, dv.v) IN
                 IF hit # 0 THEN Validate(hit, o)
                 ELSE IF nd.dflt = 0 THEN Fail("Switch", {}, "") ELSE Validate(nd.dflt, o)
      [] nd.k = "case" ->
            IF Lazy(nd.d, o) THEN IllTyped ELSE      \* a one-shot iterator is no value to bind / match on
            LET v == Validate(nd.d, o) IN
            IF ~v.ok THEN v
            ELSE LET dv == Eval(nd.d, o) IN
                 IF ~dv.ok THEN dv
                 ELSE LET RECURSIVE Go(_)
                          Go(i) == IF i > Len(nd.cases)
                                   THEN IF nd.dflt = 0 THEN Fail("CaseWhen", {}, "") ELSE Validate(nd.dflt, o)
                                   ELSE LET c == Eval(nd.cases[i].c, o) IN
                                        IF ~c.ok THEN c
                                        ELSE IF PredRaises(c.v, dv.v) THEN UserErr("pred")
                                        ELSE IF PredHolds(c.v, dv.v) THEN Validate(nd.cases[i].n, o) ELSE Go(i + 1)
                      IN Go(1)
      [] nd.k = "coalesce" ->
            LET RECURSIVE Go(_, _)
                Go(i, last) == IF i > Len(nd.ms) THEN last
                               ELSE LET v == Validate(nd.ms[i], o) IN
                                    IF v.ok \/ v.cls = "IllTyped" THEN v
                                    ELSE Go(i + 1, v)
            IN Go(1, UserErr("empty"))
      [] nd.k = "coll" -> ValidateSeq(nd.ms, o)
      [] nd.k = "map" ->
            LET cs == MapCombos(nd, o) IN
            IF ~cs.ok THEN cs
            ELSE LET rs == [c \in 1 .. Len(cs.v) |-> Validate(nd.inner, Mix(o, cs.v[c].nested))]
                     bad == {c \in 1 .. Len(cs.v) : ~rs[c].ok} IN
                 IF bad # {} THEN rs[CHOOSE c \in bad : \A j \in bad : c <= j] ELSE OkV
      [] nd.k = "with" -> Validate(nd.inner, Overlay(nd, o))
      [] nd.k = "cached" -> Validate(nd.inner, o)
      [] nd.k = "logged" -> Validate(nd.inner, o)
      [] nd.k = "ds" ->
            LET o2 == DsOptions(nd, o)
                sel == DsSelect(nd, o2) IN
            IF ~sel.ok THEN sel
            ELSE LET v == Validate(sel.n, o2) IN
                 IF ~v.ok \/ ~EffectsOn(nd, o2) THEN v
                 ELSE IF EffMissing(nd, o2) THEN KeyNotFound({EffParam}) ELSE v
      [] nd.k = "fnapp" -> ValidateSeq(nd.args, o)

-----------------------------------------------------------------------------
\* keys of the option `p` looked at as a (possibly templated) stored value
RefKeys(p, o) ==
    LET raw == Get(p, o)
        refs == RefsTrans(raw, o)
        missing == {r \in refs : ~Has(r, o)} IN
    IF missing # {} THEN KeyNotFound(missing) ELSE OkK({p} \cup refs)

KeysOf(n, o) ==
    LET nd == NodeRec(n) IN
    CASE nd.k = "val" -> OkK({})
      [] nd.k = "allopts" -> OkK({<<k>> : k \in DOMAIN o.d})     \* every top-level key
      [] nd.k = "opt" ->
            LET own == IF Has(nd.p, o) THEN RefKeys(nd.p, o)
                       ELSE IF nd.d # 0 THEN KeysOf(nd.d, o) ELSE KeyNotFound({nd.p}) IN
            IF ~own.ok \/ nd.dom = 0 THEN own
            ELSE UnionK(<<own, KeysOf(nd.dom, o)>>)
      [] nd.k = "pred" -> KeysOf(nd.arg, o)
      [] nd.k = "tmpl" ->
            LET refs == {p \in RefsOf(nd.s) : \A i \in 1 .. Len(nd.ps) : p # <<":" \o nd.ps[i].name \o ":">>}
                missing == {p \in refs : ~Has(p, o)}
                pk == KeysSeq([i \in 1 .. Len(nd.ps) |-> nd.ps[i].n], o) IN
            IF ~pk.ok THEN pk
            ELSE LET rs == {RefKeys(p, o) : p \in refs \ missing}
                     bad == {r \in rs : ~r.ok}
                     all == missing \cup UNION {r.keys : r \in bad} IN
                 IF all # {} THEN KeyNotFound(all)
                 ELSE OkK(pk.ks \cup UNION {r.ks : r \in rs})
      [] nd.k = "apply" -> IF nd.fp = 0 THEN KeysOf(nd.src, o) ELSE UnionK(<<KeysOf(nd.src, o), KeysOf(nd.fp, o)>>)
      [] nd.k = "bind" ->
            IF Lazy(nd.src, o) THEN IllTyped ELSE      \* a one-shot iterator is no value to bind / match on
            LET ks == KeysOf(nd.src, o) IN
            IF ~ks.ok THEN ks
            ELSE LET s == Eval(nd.src, o) IN
                 IF ~s.ok THEN s
                 ELSE LET hit == TabFind(nd.lk, s.v)
                          tgt == IF hit # 0 THEN hit ELSE nd.other IN
                      IF tgt = 0 THEN UserErr("bindfn") ELSE UnionK(<<ks, KeysOf(tgt, o)>>)
      [] nd.k = "switch" ->
            LET dv == Eval(nd.d, o) IN
            IF Lazy(nd.d, o) THEN IllTyped      \* a one-shot iterator (Iter / Map) is no dispatch value
            ELSE IF ~dv.ok THEN (IF nd.dflt = 0 \/ dv.cls = "IllTyped" THEN dv ELSE KeysOf(nd.dflt, o))
            ELSE IF ~Hashable(dv.v) THEN IllTyped
            ELSE LET hit == TabFind(nd.lk, dv.v)
                     tgt == IF hit # 0 THEN hit ELSE nd.dflt IN
                 IF tgt = 0 THEN Fail("Switch", {}, "") ELSE UnionK(<<KeysOf(tgt, o), KeysOf(nd.d, o)>>)
      [] nd.k = "case" ->
            IF Lazy(nd.d, o) THEN IllTyped ELSE      \* a one-shot iterator is no value to bind / match on
            LET ks == KeysOf(nd.d, o) IN
            IF ~ks.ok THEN ks
            ELSE LET dv == Eval(nd.d, o) IN
                 IF ~dv.ok THEN dv
                 ELSE LET RECURSIVE Go(_, _)
                          Go(i, acc) ==
                              IF i > Len(nd.cases)
                              THEN IF nd.dflt = 0 THEN Fail("CaseWhen", {}, "") ELSE UnionK(<<acc, KeysOf(nd.dflt, o)>>)
                              ELSE LET c == Eval(nd.cases[i].c, o)
                                       acc2 == UnionK(<<acc, KeysOf(nd.cases[i].c, o)>>) IN
                                   IF ~c.ok THEN c
                                   ELSE IF PredRaises(c.v, dv.v) THEN UserErr("pred")
                                   ELSE IF PredHolds(c.v, dv.v) THEN UnionK(<<acc2, KeysOf(nd.cases[i].n, o)>>)
                                   ELSE Go(i + 1, acc2)
                      IN Go(1, ks)
      [] nd.k = "coalesce" ->
            LET RECURSIVE Go(_, _)
                Go(i, last) == IF i > Len(nd.ms) THEN last
                               ELSE LET v == Validate(nd.ms[i], o)
                                        e == Eval(nd.ms[i], o) IN
                                    IF (~v.ok /\ v.cls = "IllTyped") \/ (~e.ok /\ e.cls = "IllTyped") THEN IllTyped
                                    ELSE IF ~v.ok THEN Go(i + 1, v)
                                    ELSE LET ks == KeysOf(nd.ms[i], o) IN IF ks.ok THEN ks ELSE Go(i + 1, ks)
            IN Go(1, UserErr("empty"))
      [] nd.k = "coll" -> KeysSeq(nd.ms, o)
      [] nd.k = "map" ->
            LET cs == MapCombos(nd, o) IN
            IF ~cs.ok THEN cs
            ELSE LET ik == KeysSeq([i \in 1 .. Len(nd.its) |-> nd.its[i].n], o)
                     rs == [c \in 1 .. Len(cs.v) |->
                              LET w == [force |-> TRUE, q |-> cs.v[c].nested]
                                  ks == KeysOf(nd.inner, Mix(o, cs.v[c].nested)) IN
                              IF ~ks.ok THEN ks ELSE OkK(WithFilter(ks.ks, w, o))] IN
                 UnionK(<<ik>> \o rs)
      [] nd.k = "with" ->
            LET ks == KeysOf(nd.inner, Overlay(nd, o)) IN
            IF ~ks.ok THEN ks ELSE OkK(WithFilter(ks.ks, nd, o))
      [] nd.k = "cached" -> KeysOf(nd.inner, o)
      [] nd.k = "logged" -> KeysOf(nd.inner, o)
      [] nd.k = "ds" ->
            LET o1 == Mix(nd.dd, o)
                o2 == Mix(o1, nd.q)
                sel == DsSelect(nd, o2) IN
            IF ~sel.ok THEN sel
            ELSE LET inner == IF sel.dep THEN UnionK(<<KeysOf(sel.n, o2), KeysOf(nd.disp, o2)>>)
                              ELSE KeysOf(sel.n, o2) IN
                 IF ~inner.ok THEN inner
                 ELSE IF EffectsOn(nd, o2) /\ EffMissing(nd, o2) THEN KeyNotFound({EffParam})
                 ELSE LET ek == IF EffectsOn(nd, o2) THEN EffKeys(nd, o2) ELSE {} IN
                      OkK(WithFilter(WithFilter(inner.ks \cup ek, DsWithQ(nd), o1), DsWithD(nd), o))
      [] nd.k = "fnapp" -> KeysSeq(nd.args, o)

-----------------------------------------------------------------------------
Insufficient == Fail("Insufficient", {}, "")

Explain(n, o) ==
    LET nd == NodeRec(n) IN
    CASE nd.k = "val" -> OkK({})
      [] nd.k = "allopts" -> OkK({<<k>> : k \in DOMAIN o.d})
      [] nd.k = "opt" ->
            LET own == IF Has(nd.p, o) THEN OkK({nd.p} \cup RefsTrans(Get(nd.p, o), o))
                       ELSE IF nd.d # 0 THEN Explain(nd.d, o) ELSE OkK({nd.p}) IN
            IF ~own.ok \/ nd.dom = 0 THEN own ELSE UnionK(<<own, Explain(nd.dom, o)>>)
      [] nd.k = "pred" -> Explain(nd.arg, o)
      [] nd.k = "tmpl" ->
            LET refs == {p \in RefsOf(nd.s) : \A i \in 1 .. Len(nd.ps) : p # <<":" \o nd.ps[i].name \o ":">>}
                pk == ExplainSeq([i \in 1 .. Len(nd.ps) |-> nd.ps[i].n], o) IN
            IF ~pk.ok THEN pk
            ELSE OkK(pk.ks \cup refs \cup UNION {IF Has(p, o) THEN RefsTrans(Get(p, o), o) ELSE {} : p \in refs})
      [] nd.k = "apply" -> IF nd.fp = 0 THEN Explain(nd.src, o) ELSE UnionK(<<Explain(nd.src, o), Explain(nd.fp, o)>>)
      [] nd.k = "bind" ->
            IF Lazy(nd.src, o) THEN IllTyped ELSE      \* a one-shot iterator is no value to bind / match on
            LET ks == Explain(nd.src, o) IN
            IF ~ks.ok THEN ks
            ELSE LET s == Eval(nd.src, o) IN
                 IF ~s.ok THEN Insufficient
                 ELSE LET hit == TabFind(nd.lk, s.v)
                          tgt == IF hit # 0 THEN hit ELSE nd.other IN
                      IF tgt = 0 THEN UserErr("bindfn") ELSE UnionK(<<ks, Explain(tgt, o)>>)
      [] nd.k = "switch" ->
            LET dv == Eval(nd.d, o) IN
            IF Lazy(nd.d, o) THEN IllTyped      \* a one-shot iterator (Iter / Map) is no dispatch value
            ELSE IF ~dv.ok THEN (IF dv.cls = "IllTyped" THEN dv ELSE IF nd.dflt = 0 THEN Insufficient ELSE Explain(nd.dflt, o))
            ELSE IF ~Hashable(dv.v) THEN IllTyped
            ELSE LET hit == TabFind(nd.lk, dv.v)
                     tgt == IF hit # 0 THEN hit ELSE nd.dflt IN
                 IF tgt = 0 THEN Insufficient ELSE UnionK(<<Explain(tgt, o), Explain(nd.d, o)>>)
      [] nd.k = "case" ->
            IF Lazy(nd.d, o) THEN IllTyped ELSE      \* a one-shot iterator is no value to bind / match on
            LET ks == Explain(nd.d, o) IN
            IF ~ks.ok THEN ks
            ELSE LET dv == Eval(nd.d, o) IN
                 IF ~dv.ok THEN Insufficient
                 ELSE LET RECURSIVE Go(_, _)
                          Go(i, acc) ==
                              IF i > Len(nd.cases)
                              THEN IF nd.dflt = 0 THEN Insufficient ELSE UnionK(<<acc, Explain(nd.dflt, o)>>)
                              ELSE LET c == Eval(nd.cases[i].c, o)
                                       acc2 == UnionK(<<acc, Explain(nd.cases[i].c, o)>>) IN
                                   IF ~c.ok THEN Insufficient
                                   ELSE IF PredRaises(c.v, dv.v) THEN UserErr("pred")
                                   ELSE IF PredHolds(c.v, dv.v) THEN UnionK(<<acc2, Explain(nd.cases[i].n, o)>>)
                                   ELSE Go(i + 1, acc2)
                      IN Go(1, ks)
      [] nd.k = "coalesce" ->
            LET RECURSIVE Go(_)
                Go(i) == IF i > Len(nd.ms) THEN Explain(nd.ms[Len(nd.ms)], o)
                         ELSE LET v == Validate(nd.ms[i], o)
                                  e == Eval(nd.ms[i], o) IN
                              IF (~v.ok /\ v.cls = "IllTyped") \/ (~e.ok /\ e.cls = "IllTyped") THEN IllTyped
                              ELSE IF ~v.ok THEN Go(i + 1)
                              ELSE LET ks == Explain(nd.ms[i], o) IN IF ks.ok THEN ks ELSE Go(i + 1)
            IN Go(1)
      [] nd.k = "coll" -> ExplainSeq(nd.ms, o)
      [] nd.k = "map" ->
            LET cs == MapCombos(nd, o)
                ik == ExplainSeq([i \in 1 .. Len(nd.its) |-> nd.its[i].n], o) IN
            IF ~cs.ok /\ cs.cls = "IllTyped" THEN cs
            ELSE IF ~cs.ok
            THEN \* iterables undeterminable: static fallback = inner's keys minus the mapped keys
                 LET inner == Explain(nd.inner, o) IN
                 IF ~inner.ok \/ ~ik.ok THEN (IF ~inner.ok THEN inner ELSE ik)
                 ELSE OkK((inner.ks \ {nd.its[i].p : i \in 1 .. Len(nd.its)}) \cup ik.ks)
            ELSE LET rs == [c \in 1 .. Len(cs.v) |->
                              LET w == [force |-> TRUE, q |-> cs.v[c].nested]
                                  ks == Explain(nd.inner, Mix(o, cs.v[c].nested)) IN
                              IF ~ks.ok THEN ks ELSE OkK(WithFilterX(ks.ks, w, o))] IN
                 UnionK(<<ik>> \o rs)
      [] nd.k = "with" ->
            LET ks == Explain(nd.inner, Overlay(nd, o)) IN
            IF ~ks.ok THEN ks ELSE OkK(WithFilterX(ks.ks, nd, o))
      [] nd.k = "cached" -> Explain(nd.inner, o)
      [] nd.k = "logged" -> Explain(nd.inner, o)
      [] nd.k = "ds" ->
            LET o1 == Mix(nd.dd, o)
                o2 == Mix(o1, nd.q)
                sel == DsSelect(nd, o2) IN
            IF ~sel.ok THEN Insufficient
            ELSE LET inner == IF sel.dep THEN UnionK(<<Explain(sel.n, o2), Explain(nd.disp, o2)>>)
                              ELSE Explain(sel.n, o2) IN
                 IF ~inner.ok THEN inner
                 ELSE LET ek == IF EffectsOn(nd, o2) THEN EffKeys(nd, o2) ELSE {} IN
                      OkK(WithFilterX(WithFilterX(inner.ks \cup ek, DsWithQ(nd), o1), DsWithD(nd), o))
      [] nd.k = "fnapp" -> ExplainSeq(nd.args, o)

-----------------------------------------------------------------------------
(***************************************************************************)
(* C02 / C06 / C18: Visit(n, o) is the set of [node, options] pairs on     *)
(* which evaluate is invoked when n is evaluated under o: the selected     *)
(* path, including members / dispatches that are tried and fail.  The      *)
(* dataset nodes among them are the demands Dem(n, o): which bodies MAY    *)
(* run (an upper bound: running fewer bodies is never an error).           *)
(***************************************************************************)
RECURSIVE Visit(_, _), Mentions(_)

VisitSeq(ns, o) ==   \* members in order, up to and including the first that fails
    LET firstbad == IF \E i \in 1 .. Len(ns) : ~Eval(ns[i], o).ok
                    THEN CHOOSE i \in 1 .. Len(ns) : ~Eval(ns[i], o).ok /\ \A j \in 1 .. i - 1 : Eval(ns[j], o).ok
                    ELSE Len(ns) IN
    UNION {Visit(ns[i], o) : i \in 1 .. firstbad}

OptVisit(m, o) == IF m = 0 THEN {} ELSE Visit(m, o)

Visit(n, o) ==
    LET nd == NodeRec(n) IN
    {[n |-> n, o |-> o]} \cup
    CASE nd.k \in {"val", "allopts"} -> {}
      [] nd.k = "opt" -> (IF Has(nd.p, o) THEN {} ELSE OptVisit(nd.d, o)) \cup OptVisit(nd.dom, o)
      [] nd.k = "pred" -> Visit(nd.arg, o)
      [] nd.k = "tmpl" -> VisitSeq([i \in 1 .. Len(nd.ps) |-> nd.ps[i].n], o)
      [] nd.k = "apply" -> Visit(nd.src, o) \cup (IF Eval(nd.src, o).ok THEN OptVisit(nd.fp, o) ELSE {})
      [] nd.k = "bind" ->
            LET s == Eval(nd.src, o) IN
            Visit(nd.src, o) \cup (IF ~s.ok THEN {}
                                 ELSE LET hit == TabFind(nd.lk, s.v) tgt == IF hit # 0 THEN hit ELSE nd.other IN OptVisit(tgt, o))
      [] nd.k = "switch" ->
            LET dv == Eval(nd.d, o) IN
            Visit(nd.d, o) \cup (IF ~dv.ok THEN OptVisit(nd.dflt, o)
                               ELSE IF ~Hashable(dv.v) THEN {}
                               ELSE LET hit == TabFind(nd.lk, dv.v) IN OptVisit(IF hit # 0 THEN hit ELSE nd.dflt, o))
      [] nd.k = "case" ->
            LET dv == Eval(nd.d, o) IN
            Visit(nd.d, o) \cup
            (IF ~dv.ok THEN {}
             ELSE LET RECURSIVE Go(_)
                      Go(i) == IF i > Len(nd.cases) THEN OptVisit(nd.dflt, o)
                               ELSE LET c == Eval(nd.cases[i].c, o) IN
                                    Visit(nd.cases[i].c, o) \cup
                                    (IF ~c.ok \/ PredRaises(c.v, dv.v) THEN {}
                                     ELSE IF PredHolds(c.v, dv.v) THEN Visit(nd.cases[i].n, o) ELSE Go(i + 1))
                  IN Go(1))
      [] nd.k = "coalesce" ->
            LET RECURSIVE Go(_)
                Go(i) == IF i > Len(nd.ms) THEN {}
                         ELSE Visit(nd.ms[i], o) \cup
                              (IF Validate(nd.ms[i], o).ok /\ Eval(nd.ms[i], o).ok THEN {} ELSE Go(i + 1))
            IN Go(1)
      [] nd.k = "coll" -> VisitSeq(nd.ms, o)
      [] nd.k = "map" ->
            LET cs == MapCombos(nd, o) IN
            VisitSeq([i \in 1 .. Len(nd.its) |-> nd.its[i].n], o) \cup
            (IF ~cs.ok THEN {} ELSE UNION {Visit(nd.inner, Mix(o, cs.v[c].nested)) : c \in 1 .. Len(cs.v)})
      [] nd.k = "with" -> Visit(nd.inner, Overlay(nd, o))
      [] nd.k = "cached" -> Visit(nd.inner, o)
      [] nd.k = "logged" -> Visit(nd.inner, o)
      [] nd.k = "ds" ->
            LET o2 == DsOptions(nd, o)
                sel == DsSelect(nd, o2) IN
            OptVisit(nd.disp, o2) \cup (IF sel.ok THEN Visit(sel.n, o2) ELSE {})
      [] nd.k = "fnapp" -> VisitSeq(nd.args, o)

\* Surely(n, o): nodes whose evaluate() certainly runs during evaluate(n, o) -- a LOWER bound (Visit is the
\* upper bound): stated for the kinds whose evaluation order is fixed and that do not change the options.
RECURSIVE Surely(_, _)
SurelySeq(ns, o) ==   \* members in order, up to and including the first that fails
    LET firstbad == IF \E i \in 1 .. Len(ns) : ~Eval(ns[i], o).ok
                    THEN CHOOSE i \in 1 .. Len(ns) : ~Eval(ns[i], o).ok /\ \A j \in 1 .. i - 1 : Eval(ns[j], o).ok
                    ELSE Len(ns) IN
    UNION {Surely(ns[i], o) : i \in 1 .. firstbad}
Surely(n, o) ==
    LET nd == NodeRec(n) IN
    {n} \cup
    CASE nd.k = "opt" -> IF ~Has(nd.p, o) /\ nd.d # 0 THEN Surely(nd.d, o) ELSE {}
      [] nd.k = "apply" -> Surely(nd.src, o) \cup (IF Eval(nd.src, o).ok /\ nd.fp # 0 THEN Surely(nd.fp, o) ELSE {})
      [] nd.k = "switch" ->
            LET dv == Eval(nd.d, o) IN
            Surely(nd.d, o) \cup
            (IF ~dv.ok THEN (IF nd.dflt = 0 \/ dv.cls = "IllTyped" THEN {} ELSE Surely(nd.dflt, o))
             ELSE IF ~Hashable(dv.v) THEN {}
             ELSE LET hit == TabFind(nd.lk, dv.v) IN
                  IF hit # 0 THEN Surely(hit, o) ELSE IF nd.dflt = 0 THEN {} ELSE Surely(nd.dflt, o))
      [] nd.k = "coalesce" ->     \* every member that validates is evaluated until one succeeds
            UNION {Surely(nd.ms[i], o) :
                     i \in {k \in 1 .. Len(nd.ms) : Validate(nd.ms[k], o).ok
                                                     /\ \A j \in 1 .. k - 1 : ~(Validate(nd.ms[j], o).ok /\ Eval(nd.ms[j], o).ok)}}
      [] nd.k = "coll" -> SurelySeq(nd.ms, o)
      [] nd.k = "fnapp" -> SurelySeq(nd.args, o)
      [] nd.k = "logged" -> Surely(nd.inner, o)
      [] OTHER -> {}

\* Logged(inner, ..., log_first): the message is emitted before the inner evaluation starts (always, once the
\* node is evaluated) or after it has succeeded (never when it fails).  MayLog: Logged nodes an evaluation may
\* reach; MustLog: those that certainly emit; NoLog: reached or not, these must stay silent.
MayLog(n, o) == {x.n : x \in {y \in Visit(n, o) : NodeRec(y.n).k = "logged"}}
Emits(m, o) == NodeRec(m).first \/ Eval(NodeRec(m).inner, o).ok
MustLog(n, o) == {m \in Surely(n, o) : NodeRec(m).k = "logged" /\ Emits(m, o)}
NoLog(n, o) == {x.n : x \in {y \in Visit(n, o) : NodeRec(y.n).k = "logged"}} \
               {x.n : x \in {y \in Visit(n, o) : NodeRec(y.n).k = "logged" /\ Emits(y.n, y.o)}}

\* the dataset a derivative was derived from (bodies, caches and tables belong to it)
RECURSIVE BaseOf(_)
BaseOf(n) == IF nodes[n].k = "dsof" THEN BaseOf(nodes[n].base) ELSE n

\* the dataset demands among the visited nodes
Dem(n, o) ==
    {LET nd == NodeRec(x.n) o2 == DsOptions(nd, x.o) IN
     [d |-> BaseOf(x.n), oe |-> Restrict(o2, {p \in Mentions(x.n) : Has(p, o2)})] :
        x \in {y \in Visit(n, o) : NodeRec(y.n).k = "ds"}}

\* a coalesce on the evaluation path drops a member that validates but then fails to evaluate
\* (a raising body, a value outside its domain): keys()/validate() follow the validating member,
\* evaluate() the next one -- the key-related invariants are stated for evaluations without this
\* Likewise a switch (or a dataset's overload dispatch) that takes its DEFAULT because the dispatch could not be
\* evaluated: keys() then reports the default's keys only, although the outcome still depends on whatever made the
\* dispatch fail (a present value outside its domain, a raising body, an unmatched inner switch, a missing option
\* that is only needed because of a present one).  labrea has no way to report the keys of a computation that
\* failed, so no key set over present options is sufficient there (TLC: KeysSufficient fails on family mapswitch
\* without this precondition).  The one fallback that reads nothing is a bare Option without default whose key
\* is absent; every other failed dispatch with a default is flagged.
BareMissing(m, o) == LET r == NodeRec(m) IN r.k = "opt" /\ r.d = 0 /\ ~Has(r.p, o)
FallsBack(x) ==
    LET nd == NodeRec(x.n) IN
    \/ nd.k = "switch" /\ nd.dflt # 0 /\ ~BareMissing(nd.d, x.o) /\
          LET dv == Eval(nd.d, x.o) IN ~dv.ok /\ dv.cls # "IllTyped"
    \/ nd.k = "ds" /\ nd.disp # 0 /\ nd.dflt # 0 /\
          LET o2 == DsOptions(nd, x.o) dv == Eval(nd.disp, o2) IN
          ~BareMissing(nd.disp, o2) /\ ~dv.ok /\ dv.cls # "IllTyped"

Swallows(n, o) ==
    \E x \in Visit(n, o) :
        LET nd == NodeRec(x.n) IN
        nd.k = "coalesce" /\
        \E i \in 1 .. Len(nd.ms) :
            /\ \A j \in 1 .. i - 1 : ~(Validate(nd.ms[j], x.o).ok /\ Eval(nd.ms[j], x.o).ok)
            /\ Validate(nd.ms[i], x.o).ok /\ ~Eval(nd.ms[i], x.o).ok

\* ... and a coalesce that moves past a member that cannot be evaluated (for any reason other than being a bare
\* absent Option) reports the keys of the member it ends up with only
SkipsMember(x) ==
    LET nd == NodeRec(x.n) IN
    nd.k = "coalesce" /\
    \E i \in 1 .. Len(nd.ms) - 1 :
        /\ \A j \in 1 .. i : ~(Validate(nd.ms[j], x.o).ok /\ Eval(nd.ms[j], x.o).ok)
        /\ ~BareMissing(nd.ms[i], x.o)
        /\ LET v == Validate(nd.ms[i], x.o) IN v.ok \/ v.cls # "IllTyped"

\* evaluations in which a failure was recovered from: no key set over present options can be sufficient for them
\* (C03 / C01 are stated without them; what the real code does there is the known finding class `recovered-failure`)
KeyBlind(n, o) == Swallows(n, o) \/ \E x \in Visit(n, o) : FallsBack(x) \/ SkipsMember(x)

\* C10: the nodes that validate(n, o) EVALUATES (not merely validates): only what is needed to choose a
\* branch -- switch / overload dispatches, bind and case sources, case conditions, Map iterables -- and a
\* present option itself (validation of a present option is its evaluation).  An upper bound as well.
RECURSIVE ValRuns(_, _)
OptValRuns(m, o) == IF m = 0 THEN {} ELSE ValRuns(m, o)
NodesOf(vs) == {x.n : x \in vs}
ValRuns(n, o) ==
    LET nd == NodeRec(n) IN
    CASE nd.k \in {"val", "allopts"} -> {}
      [] nd.k = "opt" -> IF Has(nd.p, o) THEN NodesOf(Visit(n, o)) ELSE OptValRuns(nd.d, o) \cup OptValRuns(nd.dom, o)
      [] nd.k = "pred" -> ValRuns(nd.arg, o)
      [] nd.k = "tmpl" -> UNION {ValRuns(nd.ps[i].n, o) : i \in 1 .. Len(nd.ps)}
      [] nd.k = "apply" -> ValRuns(nd.src, o) \cup OptValRuns(nd.fp, o)
      [] nd.k = "bind" ->
            LET s == Eval(nd.src, o) IN
            ValRuns(nd.src, o) \cup NodesOf(Visit(nd.src, o)) \cup
            (IF ~s.ok THEN {} ELSE LET hit == TabFind(nd.lk, s.v) tgt == IF hit # 0 THEN hit ELSE nd.other IN OptValRuns(tgt, o))
      [] nd.k = "switch" ->
            LET dv == Eval(nd.d, o) IN
            NodesOf(Visit(nd.d, o)) \cup
            (IF ~dv.ok THEN OptValRuns(nd.dflt, o)
             ELSE IF ~Hashable(dv.v) THEN {}
             ELSE LET hit == TabFind(nd.lk, dv.v) IN OptValRuns(IF hit # 0 THEN hit ELSE nd.dflt, o))
      [] nd.k = "case" ->
            LET dv == Eval(nd.d, o) IN
            ValRuns(nd.d, o) \cup NodesOf(Visit(nd.d, o)) \cup
            (IF ~dv.ok THEN {}
             ELSE LET RECURSIVE Go(_)
                      Go(i) == IF i > Len(nd.cases) THEN OptValRuns(nd.dflt, o)
                               ELSE LET c == Eval(nd.cases[i].c, o) IN
                                    NodesOf(Visit(nd.cases[i].c, o)) \cup
                                    (IF ~c.ok \/ PredRaises(c.v, dv.v) THEN {}
                                     ELSE IF PredHolds(c.v, dv.v) THEN ValRuns(nd.cases[i].n, o) ELSE Go(i + 1))
                  IN Go(1))
      [] nd.k = "coalesce" ->
            LET RECURSIVE Go(_)
                Go(i) == IF i > Len(nd.ms) THEN {}
                         ELSE ValRuns(nd.ms[i], o) \cup (IF Validate(nd.ms[i], o).ok THEN {} ELSE Go(i + 1))
            IN Go(1)
      [] nd.k = "coll" -> UNION {ValRuns(nd.ms[i], o) : i \in 1 .. Len(nd.ms)}
      [] nd.k = "map" ->
            LET cs == MapCombos(nd, o) IN
            UNION {NodesOf(Visit(nd.its[i].n, o)) : i \in 1 .. Len(nd.its)} \cup
            (IF ~cs.ok THEN {} ELSE UNION {ValRuns(nd.inner, Mix(o, cs.v[c].nested)) : c \in 1 .. Len(cs.v)})
      [] nd.k = "with" -> ValRuns(nd.inner, Overlay(nd, o))
      [] nd.k = "cached" -> ValRuns(nd.inner, o)
      [] nd.k = "logged" -> ValRuns(nd.inner, o)
      [] nd.k = "ds" ->
            LET o2 == DsOptions(nd, o)
                sel == DsSelect(nd, o2) IN
            (IF nd.disp = 0 THEN {} ELSE NodesOf(Visit(nd.disp, o2))) \cup (IF sel.ok THEN ValRuns(sel.n, o2) ELSE {})
      [] nd.k = "fnapp" -> UNION {ValRuns(nd.args[i], o) : i \in 1 .. Len(nd.args)}

\* Iter and Map evaluate to ONE-SHOT iterators.  Lazy(n, o): the Python value of n is, or contains, such an
\* iterator (a body / apply function consumes the iterators it is given, so its result is not lazy).  A cache
\* that stores a lazy value hands out an exhausted iterator the second time: what re-evaluation then yields is
\* outside every statement, and the conformance step skips histories on graphs where CachesLazy holds.
Lazy(n, o) ==
    LET nd == NodeRec(n)
        Sel(m) == IF m = 0 THEN FALSE ELSE Lazy(m, o) IN
    CASE nd.k = "coll" -> nd.c = "iter" \/ (nd.c \in {"list", "tuple", "dict"} /\ \E i \in 1 .. Len(nd.ms) : Lazy(nd.ms[i], o))
      [] nd.k = "map" -> TRUE
      [] nd.k = "opt" -> ~Has(nd.p, o) /\ Sel(nd.d)
      [] nd.k = "bind" ->
            LET s == Eval(nd.src, o) IN
            s.ok /\ LET hit == TabFind(nd.lk, s.v) IN Sel(IF hit # 0 THEN hit ELSE nd.other)
      [] nd.k = "switch" ->
            LET dv == Eval(nd.d, o) IN
            IF ~dv.ok THEN Sel(nd.dflt)
            ELSE Hashable(dv.v) /\ LET hit == TabFind(nd.lk, dv.v) IN Sel(IF hit # 0 THEN hit ELSE nd.dflt)
      [] nd.k = "case" -> \E i \in 1 .. Len(nd.cases) : Lazy(nd.cases[i].n, o) \/ Sel(nd.dflt)      \* any branch (over-approximation)
      [] nd.k = "coalesce" -> \E i \in 1 .. Len(nd.ms) : Lazy(nd.ms[i], o)                        \* any member (over-approximation)
      [] nd.k = "with" -> Lazy(nd.inner, Overlay(nd, o))
      [] nd.k = "cached" -> Lazy(nd.inner, o)
      [] nd.k = "logged" -> Lazy(nd.inner, o)
      [] nd.k = "ds" ->
            LET o2 == DsOptions(nd, o) sel == DsSelect(nd, o2) IN
            sel.ok /\ nd.cb = "" /\ NodeRec(sel.n).k # "fnapp" /\ Lazy(sel.n, o2)
      [] OTHER -> FALSE

CachesLazy(n, o) ==
    \E x \in Visit(n, o) :
        LET nd == NodeRec(x.n) IN
        \/ nd.k = "cached" /\ Lazy(nd.inner, x.o)
        \/ nd.k = "ds" /\ Lazy(x.n, x.o)

\* The same demands identified by what the dataset DEPENDS ON: the caller-side options restricted to the keys it reports
\* (the memo key of the implementation; sufficiency of that key set is the invariant KeysSufficient).  Two dictionaries
\* that differ only in options a pre-set value shadows, or a branch not taken mentions, are ONE demand here although
\* Dem tells them apart.  Where keys() fails or a failure was recovered from (KeyBlind) the coarser identity of Dem
\* is kept.  Used across the evaluations of a history (C02, "runs-per-history").
DemK(n, o) ==
    {LET nd == NodeRec(x.n) o2 == DsOptions(nd, x.o) k == KeysOf(x.n, x.o) IN
     [d |-> BaseOf(x.n),
      oe |-> IF k.ok /\ ~KeyBlind(x.n, x.o) THEN Restrict(x.o, k.ks)
             ELSE Restrict(o2, {p \in Mentions(x.n) : Has(p, o2)})] :
        x \in {y \in Visit(n, o) : NodeRec(y.n).k = "ds"}}

\* permitted body runs per dataset node in ONE evaluation with cold caches: one per distinct demand
Permit(n, o) ==
    LET ds == Dem(n, o)
        ids == {x.d : x \in ds} IN
    {[d |-> i, c |-> Cardinality({x \in ds : x.d = i})] : i \in ids}

-----------------------------------------------------------------------------
\* C09: the option keys the template substitution looks up when n is evaluated under o
\* (transitively through templated values; absent ones included)
RECURSIVE TemplateReads(_, _)
TemplateReads(n, o) ==
    LET nd == NodeRec(n) IN
    CASE nd.k = "tmpl" ->
            LET refs == {p \in RefsOf(nd.s) : \A i \in 1 .. Len(nd.ps) : p # <<":" \o nd.ps[i].name \o ":">>} IN
            refs \cup UNION {IF Has(p, o) THEN RefsTrans(Get(p, o), o) ELSE {} : p \in refs}
                 \cup UNION {TemplateReads(nd.ps[i].n, o) : i \in 1 .. Len(nd.ps)}
      [] nd.k = "opt" ->
            IF Has(nd.p, o) THEN {nd.p} \cup RefsTrans(Get(nd.p, o), o)
            ELSE IF nd.d # 0 THEN TemplateReads(nd.d, o) ELSE {}
      [] OTHER -> {}

-----------------------------------------------------------------------------
\* static: every path the graph below n refers to anywhere
Mentions(n) ==
    LET nd == NodeRec(n)
        Kids(ns) == UNION {Mentions(ns[i]) : i \in 1 .. Len(ns)}
        Opt(m) == IF m = 0 THEN {} ELSE Mentions(m) IN
    CASE nd.k \in {"val", "allopts"} -> {}
      [] nd.k = "opt" -> {nd.p} \cup Opt(nd.d) \cup Opt(nd.dom)
      [] nd.k = "pred" -> Mentions(nd.arg)
      [] nd.k = "tmpl" -> RefsOf(nd.s) \cup UNION {Mentions(nd.ps[i].n) : i \in 1 .. Len(nd.ps)}
      [] nd.k = "apply" -> Mentions(nd.src) \cup Opt(nd.fp)
      [] nd.k = "bind" -> Mentions(nd.src) \cup Opt(nd.other) \cup UNION {Mentions(nd.lk[i].n) : i \in 1 .. Len(nd.lk)}
      [] nd.k = "switch" -> Mentions(nd.d) \cup Opt(nd.dflt) \cup UNION {Mentions(nd.lk[i].n) : i \in 1 .. Len(nd.lk)}
      [] nd.k = "case" -> Mentions(nd.d) \cup Opt(nd.dflt) \cup
                          UNION {Mentions(nd.cases[i].n) \cup Mentions(nd.cases[i].c) : i \in 1 .. Len(nd.cases)}
      [] nd.k = "coalesce" -> Kids(nd.ms)
      [] nd.k = "coll" -> Kids(nd.ms)
      [] nd.k = "map" -> Mentions(nd.inner) \cup UNION {Mentions(nd.its[i].n) \cup {nd.its[i].p} : i \in 1 .. Len(nd.its)}
      [] nd.k = "with" -> Mentions(nd.inner) \cup Present(nd.q)
      [] nd.k = "cached" -> Mentions(nd.inner)
      [] nd.k = "logged" -> Mentions(nd.inner)
      [] nd.k = "ds" -> Opt(nd.dflt) \cup Opt(nd.disp) \cup Present(nd.q) \cup Present(nd.dd) \cup EffKeys(nd, EmptyD) \cup
                        UNION {Mentions(DsTable(nd)[i].n) : i \in 1 .. Len(DsTable(nd))}
      [] nd.k = "fnapp" -> Kids(nd.args)

=============================================================================
