----------------------------- MODULE Trace_Cache -----------------------------
(* Trace validation for CacheImpl: histories recorded from the real Cached.evaluate with a
   scripted unreliable backend must be behaviours of the micro-step model. *)
EXTENDS CacheImpl, Json, IOUtils, FiniteSetsExt

Traces == ndJsonDeserialize(IOEnv.TRACE_FILE)
VARIABLES tid, l
tvars == <<vars, tid, l>>
TK == {1, 2}
Trace == Traces[tid]
Ev == Trace[l]

TInit == Init /\ tid \in 1 .. Len(Traces) /\ l = 1 /\ \A i \in 1 .. Len(Traces) : TLCSet(i, 0)
Is(e) == l <= Len(Trace) /\ Ev.a = e /\ l' = l + 1 /\ UNCHANGED tid

TStart == Is("Start") /\ Start(Ev.k, Ev.via)
\* a logged Exists is the probe of Cached.validate (under a coalesce) or the one of Cached.evaluate
TExists == Is("Exists") /\ (VExists(Ev.f) \/ Exists(Ev.f)) /\ act'.k = Ev.k /\ act'.r = Ev.r
\* a logged Get is the retrieval after exists or the read-back after set
TGet == Is("Get") /\ (Get(Ev.f) \/ Readback(Ev.f)) /\ act'.k = Ev.k /\ act'.r = Ev.r
TCompute == Is("Compute") /\ Compute /\ act'.k = Ev.k
TSet == Is("Set") /\ Set(Ev.f) /\ act'.k = Ev.k
TReturn == Is("Return") /\ Return /\ act'.k = Ev.k /\ act'.v = Ev.v /\ act'.runs = Ev.runs
TDone == l = Len(Trace) + 1 /\ UNCHANGED tvars

TNext == TStart \/ TExists \/ TGet \/ TCompute \/ TSet \/ TReturn \/ TDone
TSpec == TInit /\ [][TNext]_tvars
Reach == TLCSet(tid, IF TLCGet(tid) < l THEN l ELSE TLCGet(tid))
Rejected == {i \in 1 .. Len(Traces) : TLCGet(i) # Len(Traces[i]) + 1}
TraceAccepted ==
    /\ \A i \in Rejected : PrintT("REJECTED " \o ToJson([tid |-> i, line |-> TLCGet(i)]))
    /\ PrintT("VALIDATED " \o ToString(Len(Traces) - Cardinality(Rejected)))
=============================================================================
