---------------------------- MODULE Trace_Runtime ----------------------------
(***************************************************************************)
(* Trace validation for RuntimeMachine: executions recorded from the real  *)
(* labrea.runtime (random drivers beyond TLC's exhaustive bounds, and the  *)
(* fine-grained thread schedules of C15 after linearisation) are accepted  *)
(* iff they are behaviours of RuntimeMachine.  One ndjson line per trace;  *)
(* thousands of traces per TLC run (tid is chosen in the initial state).   *)
(***************************************************************************)
EXTENDS RuntimeMachine, Json, IOUtils, SequencesExt, FiniteSetsExt

Traces == ndJsonDeserialize(IOEnv.TRACE_FILE)

VARIABLES tid, l
tvars == <<vars, tid, l>>

TThreads == {"t1", "t2", "t3"}
TTypes == {"A", "B", "C", "D"}
TInitD == {"A"}
TLate == {"B", "D"}
TOv == SUBSET TTypes

Trace == Traces[tid]
Ev == Trace[l]

TraceInit ==
    /\ Init
    /\ tid \in 1 .. Len(Traces)
    /\ l = 1
    /\ \A i \in 1 .. Len(Traces) : TLCSet(i, 0)

IsEvent(e) == l <= Len(Trace) /\ Ev.a = e /\ l' = l + 1 /\ UNCHANGED tid

Tys(seq) == ToSet(seq)

TCreate  == IsEvent("Create") /\ Create(Ev.t, Tys(Ev.tys)) /\ act'.r = Ev.r
TDerive  == IsEvent("Derive") /\ Derive(Ev.t, Ev.src, Tys(Ev.tys)) /\ act'.r = Ev.r
THandle  == IsEvent("HandleCurrent") /\ HandleCurrent(Ev.t, Tys(Ev.tys)) /\ act'.r = Ev.r
TEnter   == IsEvent("Enter") /\ Enter(Ev.t, Ev.r)
TExit    == IsEvent("Exit") /\ Exit(Ev.t, Ev.how) /\ act'.r = Ev.r
TRegister == IsEvent("RegisterDefault") /\ RegisterDefault(Ev.t, Ev.ty)
TInherit == IsEvent("Inherit") /\ Inherit(Ev.t, Ev.p)
\* the only event with an observation: the handler tags the real code returned
TProbe   == /\ IsEvent("Probe")
            /\ Probe(Ev.t)
            /\ \A ty \in ReqTypes : act'.srv[Ev.t][ty] = Ev.res[ty]
            \* ... and what reached the caller when the serving handler raised
            /\ ("resx" \in DOMAIN Ev) => (\A ty2 \in ReqTypes : act'.srvx[Ev.t][ty2] = Ev.resx[ty2])

TDone == l = Len(Trace) + 1 /\ UNCHANGED tvars

TraceNext == TCreate \/ TDerive \/ THandle \/ TEnter \/ TExit \/ TRegister \/ TInherit
             \/ TProbe \/ TDone

TraceSpec == TraceInit /\ [][TraceNext]_tvars

\* highest line reached per trace (register tid); evaluated on every reached state
Reach == TLCSet(tid, IF TLCGet(tid) < l THEN l ELSE TLCGet(tid))

Rejected == {i \in 1 .. Len(Traces) : TLCGet(i) # Len(Traces[i]) + 1}
TraceAccepted ==
    /\ \A i \in Rejected : PrintT("REJECTED " \o ToJson([tid |-> i, line |-> TLCGet(i)]))
    /\ PrintT("VALIDATED " \o ToString(Len(Traces) - Cardinality(Rejected)))
=============================================================================
