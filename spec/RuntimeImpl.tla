----------------------------- MODULE RuntimeImpl -----------------------------
(***************************************************************************)
(* The mechanism labrea/runtime.py uses, run in lockstep with the abstract  *)
(* RuntimeMachine: every runtime object carries a SNAPSHOT of the default   *)
(* table taken when it was created plus its explicit handlers; a thread has *)
(* a current-runtime slot; __enter__ pushes the slot's content on a         *)
(* per-thread stack and __exit__ pops it (removing the slot when there was  *)
(* nothing before); Runtime.run falls back to the live default table.       *)
(* The invariant ImplServes says the mechanism serves every request exactly *)
(* as the abstract machine prescribes.  Three switches select the mechanism *)
(* as it was at the pinned commit (defects F-C14-late-default and           *)
(* F-C14-restore-pointer): with any of them off TLC finds a counterexample, *)
(* which is how the invariant is shown not to be vacuous.                   *)
(***************************************************************************)
EXTENDS RuntimeMachine

CONSTANTS LiveDefaultFallback,   \* TRUE: run() consults the live default table when the snapshot lacks the type
          RestorePerEntry,       \* TRUE: the runtime to restore is kept per thread and per entry
          DropEmptySlot,         \* TRUE: leaving the outermost block of a thread without a runtime removes the slot
          LookupOnlyInTry        \* TRUE: only the table lookup of run() is guarded by `except KeyError`, not the handler call

Unset == 0
NoneRt == 99      \* the slot holds None (the pinned code could leave this behind)

VARIABLES snap,      \* [RtIds -> [ReqTypes -> STRING]]  handlers as copied at creation (defaults then explicit)
          slot,      \* [Threads -> 0 .. MaxRt or NoneRt]  _RUNTIMES[thread] (0 = no entry)
          pstack,    \* [Threads -> Seq]  per-thread stack of saved slots (repaired mechanism)
          objprev,   \* [RtIds -> slot value]  Runtime.previous (pinned mechanism)
          implicit   \* [Threads -> [ReqTypes -> STRING]]  snapshot of the implicit runtime created by current_runtime()

ivars == <<vars, snap, slot, pstack, objprev, implicit>>

SnapOf(explicit) == [ty \in ReqTypes |-> IF explicit[ty] # NoH THEN explicit[ty]
                                         ELSE IF defaults[ty] THEN DefaultTag(ty) ELSE NoH]

IInit ==
    /\ Init
    /\ snap = [r \in RtIds |-> NoHeld]
    /\ slot = [t \in Threads |-> Unset]
    /\ pstack = [t \in Threads |-> <<>>]
    /\ objprev = [r \in RtIds |-> Unset]
    /\ implicit = [t \in Threads |-> NoHeld]

\* current_runtime(): setdefault(thread, Runtime())
Touch(t) ==
    IF slot[t] = Unset
    THEN /\ implicit' = [implicit EXCEPT ![t] = SnapOf(NoHeld)]
         /\ slot' = [slot EXCEPT ![t] = MaxRt + 1]      \* MaxRt + 1 stands for "the thread's implicit runtime"
    ELSE UNCHANGED <<implicit, slot>>

HandlersOfSlot(t, s) == IF s = MaxRt + 1 THEN implicit[t] ELSE IF s \in RtIds THEN snap[s] ELSE NoHeld

ICreate(t, tys) ==
    /\ Create(t, tys)
    /\ snap' = [snap EXCEPT ![nrt + 1] = SnapOf([ty \in ReqTypes |-> IF ty \in tys THEN HandlerTag(nrt + 1, ty) ELSE NoH])]
    /\ UNCHANGED <<slot, pstack, objprev, implicit>>

IDerive(t, src, tys) ==
    /\ Derive(t, src, tys)
    /\ snap' = [snap EXCEPT ![nrt + 1] = [ty \in ReqTypes |-> IF ty \in tys THEN HandlerTag(nrt + 1, ty) ELSE snap[src][ty]]]
    /\ UNCHANGED <<slot, pstack, objprev, implicit>>

IHandleCurrent(t, tys) ==
    /\ HandleCurrent(t, tys)
    /\ Touch(t)
    /\ LET from == IF slot[t] = Unset THEN SnapOf(NoHeld) ELSE HandlersOfSlot(t, slot[t]) IN
       snap' = [snap EXCEPT ![nrt + 1] = [ty \in ReqTypes |-> IF ty \in tys THEN HandlerTag(nrt + 1, ty) ELSE from[ty]]]
    /\ UNCHANGED <<pstack, objprev>>

IEnter(t, r) ==
    /\ Enter(t, r)
    /\ IF RestorePerEntry
       THEN pstack' = [pstack EXCEPT ![t] = Append(@, slot[t])] /\ UNCHANGED objprev
       ELSE objprev' = [objprev EXCEPT ![r] = slot[t]] /\ UNCHANGED pstack
    /\ slot' = [slot EXCEPT ![t] = r]
    /\ UNCHANGED <<snap, implicit>>

IExit(t, how) ==
    /\ Exit(t, how)
    /\ LET r == Last(stack[t])
           saved == IF RestorePerEntry THEN Last(pstack[t]) ELSE objprev[r] IN
       /\ slot' = [slot EXCEPT ![t] = IF saved = Unset THEN (IF DropEmptySlot THEN Unset ELSE NoneRt) ELSE saved]
       /\ IF RestorePerEntry
          THEN pstack' = [pstack EXCEPT ![t] = Front(@)] /\ UNCHANGED objprev
          ELSE objprev' = [objprev EXCEPT ![r] = Unset] /\ UNCHANGED pstack
    /\ UNCHANGED <<snap, implicit>>

IRegisterDefault(t, ty) ==
    /\ RegisterDefault(t, ty)
    /\ UNCHANGED <<snap, slot, pstack, objprev, implicit>>

IProbe(t) ==
    /\ Probe(t)
    /\ Touch(t)
    /\ UNCHANGED <<snap, pstack, objprev>>

IInherit(t, p) ==
    /\ Inherit(t, p)
    /\ slot' = [slot EXCEPT ![t] = IF slot[p] = Unset THEN MaxRt + 1 ELSE slot[p]]
    /\ implicit' = [implicit EXCEPT ![t] = IF slot[p] = Unset THEN SnapOf(NoHeld)
                                           ELSE IF slot[p] = MaxRt + 1 THEN implicit[p] ELSE @]
    /\ UNCHANGED <<snap, pstack, objprev>>

INext ==
    \E t \in Threads :
        \/ \E tys \in OverrideSets \cup {{}} : ICreate(t, tys)
        \/ \E src \in RtIds, tys \in OverrideSets : IDerive(t, src, tys)
        \/ \E tys \in OverrideSets : IHandleCurrent(t, tys)
        \/ \E r \in RtIds : IEnter(t, r)
        \/ \E how \in {"normal", "exception"} : IExit(t, how)
        \/ \E ty \in ReqTypes : IRegisterDefault(t, ty)
        \/ IProbe(t)
        \/ \E p \in Threads : IInherit(t, p)

ISpec == IInit /\ [][INext]_ivars

\* what the mechanism answers for a request of type ty in thread t (as if run now)
ImplServed(t, ty) ==
    LET s == slot[t] IN
    IF s = NoneRt THEN "AttributeError"
    ELSE LET h == IF s = Unset THEN SnapOf(NoHeld) ELSE HandlersOfSlot(t, s) IN
         IF h[ty] # NoH THEN h[ty]
         ELSE IF LiveDefaultFallback /\ defaults[ty] THEN DefaultTag(ty) ELSE TypeErr

ImplServes == \A t \in Threads, ty \in ReqTypes : ImplServed(t, ty) = Served(t, ty)

\* what reaches the caller when every handler raises KeyError(<its tag>) on the request: with the handler call
\* inside the guarded region a KeyError of the handler is mistaken for "no handler in this runtime" and the
\* request is passed on to the default (or reported as TypeError)
ImplServedX(t, ty) ==
    LET s == slot[t] IN
    IF s = NoneRt THEN "AttributeError"
    ELSE LET h == IF s = Unset THEN SnapOf(NoHeld) ELSE HandlersOfSlot(t, s) IN
         IF h[ty] # NoH /\ LookupOnlyInTry THEN Raised(h[ty])
         ELSE IF LiveDefaultFallback /\ defaults[ty] THEN Raised(DefaultTag(ty)) ELSE TypeErr

ImplServesX == \A t \in Threads, ty \in ReqTypes : ImplServedX(t, ty) = SrvX[t][ty]

IView == <<abs, snap, slot, pstack, objprev, implicit>>
=============================================================================
