------------------------------ MODULE CacheImpl ------------------------------
(***************************************************************************)
(* C17: Cached.evaluate (labrea/cache.py) as micro-steps against a cache   *)
(* backend that follows the Cache contract but is unreliable: at each of   *)
(* the first MaxFaulty backend calls it may report a miss, claim an entry  *)
(* exists and then fail to retrieve it, fail to read back what was just    *)
(* stored, or silently drop a store.  One action per backend call, plus    *)
(* Start / Compute / Return.  A history is a sequence of evaluations of    *)
(* one cached dataset under option values from Keys; the value belonging   *)
(* to key k is the term F(k), so a wrong or stale value is always visible. *)
(*                                                                         *)
(* The dataset is evaluated directly, or as the first member of            *)
(* Coalesce(dataset, fallback): the coalesce validates the member first    *)
(* (Cached.validate: one exists() call; whatever it answers the member can  *)
(* be evaluated) and then evaluates it -- the fallback is never the answer. *)
(*                                                                         *)
(*   evaluate:  if exists(): try: return get()  except CacheGetFailure: .  *)
(*              v = compute();  set(v);  try: return get()                 *)
(*                                       except CacheGetFailure: return v  *)
(***************************************************************************)
EXTENDS Naturals, Sequences, FiniteSets, TLC

CONSTANTS Keys,        \* option values the dataset is evaluated under
          MaxEvals,    \* length of the history
          MaxFaulty    \* the first MaxFaulty backend calls may misbehave

Faults == {"behave", "miss", "lie", "drop"}
\* behave: follows the store; miss: exists -> FALSE / get -> CacheGetFailure although present;
\* lie: exists -> TRUE although absent; drop: set stores nothing

VARIABLES store,   \* keys the backend really holds
          pc,      \* "idle" | "exists" | "get" | "compute" | "set" | "readback" | "ret"
          key,     \* key of the evaluation in progress
          val,     \* value computed / retrieved for it ("none" before)
          ncalls,  \* backend calls so far
          nevals,  \* evaluations started so far
          runs,    \* body executions so far
          act      \* last step (history variable)

abs == <<store, pc, key, val, ncalls, nevals, runs>>
vars == <<store, pc, key, val, ncalls, nevals, runs, act>>

F(k) == "v" \o ToString(k)

Init ==
    /\ store = {} /\ pc = "idle" /\ key = 0 /\ val = "none"
    /\ ncalls = 0 /\ nevals = 0 /\ runs = 0
    /\ act = [a |-> "Init"]

MayFault(f) == f = "behave" \/ ncalls < MaxFaulty

Vias == {"direct", "coalesce"}

\* key 0: the option the dataset needs is ABSENT.  Under a coalesce the answer is then the fallback member --
\* whatever the backend claims: if it (wrongly) says the entry exists, validation passes, the retrieval fails, the
\* recomputation fails for the missing option, and the coalesce still moves on.
Absent == 0
Miss == IF key = Absent THEN "ret" ELSE "compute"
ValOnMiss == IF key = Absent THEN "FALLBACK" ELSE val

Start(k, via) ==
    /\ pc = "idle" /\ nevals < MaxEvals /\ (k = Absent => via = "coalesce")
    /\ pc' = (IF via = "coalesce" THEN "vexists" ELSE "exists") /\ key' = k /\ val' = "none" /\ nevals' = nevals + 1
    /\ UNCHANGED <<store, ncalls, runs>>
    /\ act' = [a |-> "Start", k |-> k, via |-> via]

\* Cached.validate (called by the coalesce): the backend is asked whether the entry exists; if it says no the wrapped
\* dataset is validated (no backend call); either way the member validates and is evaluated next
VExists(f) ==
    /\ pc = "vexists" /\ MayFault(f) /\ f \in {"behave", "miss", "lie"}
    /\ LET r == IF f = "miss" THEN FALSE ELSE IF f = "lie" THEN TRUE ELSE key \in store IN
       /\ act' = [a |-> "Exists", k |-> key, f |-> f, r |-> IF r THEN "True" ELSE "False"]
       \* not stored (says the backend) => the dataset itself is validated: that fails iff its option is absent
       /\ pc' = IF key = Absent /\ ~r THEN "ret" ELSE "exists"
       /\ val' = IF key = Absent /\ ~r THEN "FALLBACK" ELSE val
    /\ ncalls' = ncalls + 1
    /\ UNCHANGED <<store, key, nevals, runs>>

Exists(f) ==
    /\ pc = "exists" /\ MayFault(f) /\ f \in {"behave", "miss", "lie"}
    /\ LET r == IF f = "miss" THEN FALSE ELSE IF f = "lie" THEN TRUE ELSE key \in store IN
       /\ pc' = IF r THEN "get" ELSE Miss
       /\ val' = IF r THEN val ELSE ValOnMiss
       /\ act' = [a |-> "Exists", k |-> key, f |-> f, r |-> IF r THEN "True" ELSE "False"]
    /\ ncalls' = ncalls + 1
    /\ UNCHANGED <<store, key, nevals, runs>>

Get(f) ==
    /\ pc = "get" /\ MayFault(f) /\ f \in {"behave", "miss"}
    /\ LET ok == f = "behave" /\ key \in store IN
       /\ pc' = IF ok THEN "ret" ELSE Miss
       /\ val' = IF ok THEN F(key) ELSE ValOnMiss
       /\ act' = [a |-> "Get", k |-> key, f |-> f, r |-> IF ok THEN F(key) ELSE "CacheGetFailure"]
    /\ ncalls' = ncalls + 1
    /\ UNCHANGED <<store, key, nevals, runs>>

Compute ==
    /\ pc = "compute"
    /\ val' = F(key) /\ runs' = runs + 1 /\ pc' = "set"
    /\ UNCHANGED <<store, key, ncalls, nevals>>
    /\ act' = [a |-> "Compute", k |-> key]

Set(f) ==
    /\ pc = "set" /\ MayFault(f) /\ f \in {"behave", "drop"}
    /\ store' = IF f = "behave" THEN store \cup {key} ELSE store
    /\ pc' = "readback" /\ ncalls' = ncalls + 1
    /\ UNCHANGED <<key, val, nevals, runs>>
    /\ act' = [a |-> "Set", k |-> key, f |-> f, r |-> "None"]

Readback(f) ==
    /\ pc = "readback" /\ MayFault(f) /\ f \in {"behave", "miss"}
    /\ LET ok == f = "behave" /\ key \in store IN
       act' = [a |-> "Get", k |-> key, f |-> f, r |-> IF ok THEN F(key) ELSE "CacheGetFailure"]
    /\ pc' = "ret" /\ ncalls' = ncalls + 1      \* the computed value is returned either way
    /\ UNCHANGED <<store, key, val, nevals, runs>>

Return ==
    /\ pc = "ret"
    /\ pc' = "idle"
    /\ UNCHANGED <<store, key, val, ncalls, nevals, runs>>
    /\ act' = [a |-> "Return", k |-> key, v |-> val, runs |-> runs]

Next ==
    \/ \E k \in Keys \cup {Absent}, via \in Vias : Start(k, via)
    \/ \E f \in Faults : VExists(f) \/ Exists(f) \/ Get(f) \/ Set(f) \/ Readback(f)
    \/ Compute \/ Return

Spec == Init /\ [][Next]_vars

-----------------------------------------------------------------------------
\* C17: every evaluation returns the value of its own options, whatever the backend did
FaultyStillCorrect == pc = "ret" => val = (IF key = Absent THEN "FALLBACK" ELSE F(key))
\* ... at worst recomputing: at most one body run per evaluation
AtMostRecompute == runs <= nevals
\* a reliable backend memoises: with no faulty call, a key already stored is not recomputed
ReliableMemoises == [][(MaxFaulty = 0 /\ pc = "exists" /\ key \in store) => pc' # "compute"]_vars

View == abs
=============================================================================
