----------------------------- MODULE MC_Runtime -----------------------------
(* Model-checking / graph-export wrapper for RuntimeMachine. *)
EXTENDS RuntimeMachine, Json, IOUtils

\* one thread (C14)
T1 == {"t1"}
\* two / three threads (C15)
T2 == {"t1", "t2"}
T3 == {"t1", "t2", "t3"}
Types == {"A", "B", "C"}      \* A: default registered up front, B: registered late, C: never
InitD == {"A"}
LateD == {"B"}
OvSmall == {{"A"}, {"C"}}
OvFull  == {{"A"}, {"B"}, {"C"}, {"A", "C"}}

View == abs

\* graph export: one line per explored transition (the VIEW hides `act`, so the
\* explored graph is the graph of abstract states; every edge is still generated)
Emit == PrintT("EDGE " \o ToJson([f |-> abs, a |-> act', t |-> abs']))
EmitInit == PrintT("INIT " \o ToJson([f |-> abs]))
=============================================================================
