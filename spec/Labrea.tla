------------------------------- MODULE Labrea -------------------------------
(***************************************************************************)
(* The API-level state machine of labrea expressions: a graph is built by  *)
(* construction actions (one node at a time, children first), overloads    *)
(* are registered, and public calls are made on the root under an options  *)
(* dictionary.  `act` is the history variable carrying the last action and *)
(* everything the specification prescribes about it (hidden by the VIEW).  *)
(***************************************************************************)
EXTENDS Expr

CONSTANTS MaxNodes

VARIABLES phase, act

lvars == <<nodes, tabs, phase, act>>
labs == <<nodes, tabs, phase>>

Root == Len(nodes)

ChildrenOf(nd) ==
    LET NZ(s) == s \ {0} IN
    CASE nd.k = "val" -> {}
      [] nd.k = "opt" -> NZ({nd.d, nd.dom})
      [] nd.k = "pred" -> {nd.arg}
      [] nd.k = "tmpl" -> {nd.ps[i].n : i \in 1 .. Len(nd.ps)}
      [] nd.k = "apply" -> {nd.src}
      [] nd.k = "bind" -> NZ({nd.src, nd.other}) \cup {nd.lk[i].n : i \in 1 .. Len(nd.lk)}
      [] nd.k = "switch" -> NZ({nd.d, nd.dflt}) \cup {nd.lk[i].n : i \in 1 .. Len(nd.lk)}
      [] nd.k = "case" -> NZ({nd.d, nd.dflt}) \cup UNION {{nd.cases[i].n, nd.cases[i].c} : i \in 1 .. Len(nd.cases)}
      [] nd.k = "coalesce" -> SeqToSet(nd.ms)
      [] nd.k = "coll" -> SeqToSet(nd.ms)
      [] nd.k = "map" -> {nd.inner} \cup {nd.its[i].n : i \in 1 .. Len(nd.its)}
      [] nd.k = "with" -> {nd.inner}
      [] nd.k = "cached" -> {nd.inner}
      [] nd.k = "ds" -> NZ({nd.dflt, nd.disp})
      [] nd.k = "fnapp" -> SeqToSet(nd.args)

\* every node but the root is used by a later node, or is registered in an overload table
Complete ==
    /\ nodes # <<>>
    /\ \A i \in 1 .. Len(nodes) - 1 :
          \/ \E j \in i + 1 .. Len(nodes) : i \in ChildrenOf(nodes[j])
          \/ \E t \in DOMAIN tabs : \E e \in 1 .. Len(tabs[t]) : tabs[t][e].n = i

LInit ==
    /\ nodes = <<>>
    /\ tabs = <<>>
    /\ phase = "build"
    /\ act = [a |-> "Init"]

\* construction: nd is a well-formed node over the existing ones (the MC module says which)
Add(nd) ==
    /\ phase = "build" /\ Len(nodes) < MaxNodes
    /\ nodes' = Append(nodes, nd)
    /\ tabs' = IF nd.k = "ds" /\ nd.tab = Len(tabs) + 1 THEN Append(tabs, <<>>) ELSE tabs
    /\ UNCHANGED phase
    /\ act' = [a |-> "Add", id |-> Len(nodes) + 1, nd |-> nd]

\* dataset.register(alias, impl) / @dataset.overload(alias): at any time
Register(d, alias, impl) ==
    /\ d \in 1 .. Len(nodes) /\ nodes[d].k = "ds" /\ nodes[d].tab # 0 /\ nodes[d].disp # 0
    /\ impl \in 1 .. Len(nodes) /\ impl # d
    /\ tabs' = [tabs EXCEPT ![nodes[d].tab] =
                   IF \E e \in 1 .. Len(@) : @[e].v = alias
                   THEN [e \in 1 .. Len(@) |-> IF @[e].v = alias THEN [v |-> alias, n |-> impl] ELSE @[e]]
                   ELSE Append(@, [v |-> alias, n |-> impl])]
    /\ UNCHANGED <<nodes, phase>>
    /\ act' = [a |-> "Register", d |-> d, alias |-> alias, impl |-> impl]

\* the four public calls on the root under one dictionary, observed together
Observe(o) ==
    /\ Complete
    /\ phase' = "calls"
    /\ UNCHANGED <<nodes, tabs>>
    /\ act' = [a |-> "Observe", n |-> Root, o |-> o,
               eval |-> Eval(Root, o), validate |-> Validate(Root, o),
               keys |-> KeysOf(Root, o), explain |-> Explain(Root, o),
               mentions |-> Mentions(Root), reads |-> TemplateReads(Root, o),
               restrict |-> LET k == KeysOf(Root, o) IN IF k.ok THEN Restrict(o, k.ks) ELSE EmptyD]

=============================================================================
