------------------------------- MODULE Labrea -------------------------------
(***************************************************************************)
(* The API-level state machine of labrea expressions: a graph is built by  *)
(* construction actions (one node at a time, children first), overloads    *)
(* are registered, and public calls are made on the root under an options  *)
(* dictionary.  `act` is the history variable carrying the last action and *)
(* everything the specification prescribes about it (hidden by the VIEW).  *)
(***************************************************************************)
EXTENDS Expr

CONSTANTS MaxNodes,
          KeepHist,         \* TRUE: remember the calls made so far (histories interleaving registration and calls)
          MaxHist,          \* with KeepHist: number of calls in a history
          LateRegister,     \* TRUE: overloads may be registered between calls
          RequireComplete   \* TRUE: calls only on graphs in which every node is used (exhaustive runs)

VARIABLES phase, cur, want, hist, act

lvars == <<nodes, tabs, phase, cur, want, hist, act>>
labs == <<nodes, tabs, phase, cur, want, hist>>
NoDict == [t |-> "a"]

Root == Len(nodes)

ChildrenOf(nd) ==
    LET NZ(s) == s \ {0} IN
    CASE nd.k \in {"val", "allopts"} -> {}
      [] nd.k = "opt" -> NZ({nd.d, nd.dom})
      [] nd.k = "pred" -> {nd.arg}
      [] nd.k = "tmpl" -> {nd.ps[i].n : i \in 1 .. Len(nd.ps)}
      [] nd.k = "apply" -> NZ({nd.src, nd.fp})
      [] nd.k = "bind" -> NZ({nd.src, nd.other}) \cup {nd.lk[i].n : i \in 1 .. Len(nd.lk)}
      [] nd.k = "switch" -> NZ({nd.d, nd.dflt}) \cup {nd.lk[i].n : i \in 1 .. Len(nd.lk)}
      [] nd.k = "case" -> NZ({nd.d, nd.dflt}) \cup UNION {{nd.cases[i].n, nd.cases[i].c} : i \in 1 .. Len(nd.cases)}
      [] nd.k = "coalesce" -> SeqToSet(nd.ms)
      [] nd.k = "coll" -> SeqToSet(nd.ms)
      [] nd.k = "map" -> {nd.inner} \cup {nd.its[i].n : i \in 1 .. Len(nd.its)}
      [] nd.k = "with" -> {nd.inner}
      [] nd.k = "cached" -> {nd.inner}
      [] nd.k = "logged" -> {nd.inner}
      [] nd.k = "ds" -> NZ({nd.dflt, nd.disp})
      [] nd.k = "dsof" -> {nd.base}
      [] nd.k = "fnapp" -> SeqToSet(nd.args)

\* nodes reachable from n through children and overload tables (the graph is acyclic)
RECURSIVE Desc(_)
Desc(n) ==
    LET nd == nodes[n]
        viaTab == IF nd.k = "ds" /\ nd.tab # 0 THEN {tabs[nd.tab][e].n : e \in 1 .. Len(tabs[nd.tab])} ELSE {} IN
    {n} \cup UNION {Desc(c) : c \in ChildrenOf(nd) \cup viaTab}

\* every node but the root is used by a later node, or is registered in an overload table
Complete ==
    /\ nodes # <<>>
    /\ \A i \in 1 .. Len(nodes) - 1 :
          \/ \E j \in i + 1 .. Len(nodes) : i \in ChildrenOf(nodes[j])
          \/ \E t \in DOMAIN tabs : \E e \in 1 .. Len(tabs[t]) : tabs[t][e].n = i
          \/ (LateRegister /\ nodes[i].k \in {"val", "fnapp"} /\ ChildrenOf(nodes[i]) = {})   \* a spare implementation

LInit ==
    /\ nodes = <<>>
    /\ tabs = <<>>
    /\ phase = "build"
    /\ cur = NoDict
    /\ want = "none"
    /\ hist = <<>>
    /\ act = [a |-> "Init"]

\* construction, step 1: decide which kind of node comes next (a separate cheap step: random
\* simulation then samples kinds uniformly and enumerates the candidates of one kind only)
Choose(k) ==
    /\ phase = "build" /\ Len(nodes) < MaxNodes /\ cur = NoDict /\ want = "none"
    /\ want' = k
    /\ UNCHANGED <<nodes, tabs, phase, cur, hist>>
    /\ act' = [a |-> "Choose"]

\* construction, step 2: nd is a well-formed node over the existing ones (the MC module says which)
Add(nd) ==
    /\ phase = "build" /\ Len(nodes) < MaxNodes /\ cur = NoDict /\ want = nd.k
    /\ want' = "none"
    /\ nodes' = Append(nodes, nd)
    /\ tabs' = IF nd.k = "ds" /\ nd.tab = Len(tabs) + 1 THEN Append(tabs, <<>>) ELSE tabs
    /\ UNCHANGED <<phase, cur, hist>>
    /\ act' = [a |-> "Add", id |-> Len(nodes) + 1, nd |-> nd]

\* dataset.register(alias, impl) / @dataset.overload(alias): at any time
Register(d, alias, impl) ==
    /\ d \in 1 .. Len(nodes) /\ nodes[d].k = "ds" /\ nodes[d].tab # 0 /\ nodes[d].disp # 0
    /\ impl \in 1 .. Len(nodes) /\ d \notin Desc(impl)
    /\ tabs' = [tabs EXCEPT ![nodes[d].tab] =
                   IF \E e \in 1 .. Len(@) : @[e].v = alias
                   THEN [e \in 1 .. Len(@) |-> IF @[e].v = alias THEN [v |-> alias, n |-> impl] ELSE @[e]]
                   ELSE Append(@, [v |-> alias, n |-> impl])]
    /\ cur = NoDict /\ want = "none"
    /\ (phase = "calls" => LateRegister)
    /\ hist' = IF phase = "calls"
               THEN Append(hist, [a |-> "Register", d |-> d, alias |-> alias, impl |-> impl,
                                  prev |-> LET t == tabs[nodes[d].tab]
                                               hits == {e \in 1 .. Len(t) : t[e].v = alias} IN
                                           IF hits = {} THEN 0 ELSE t[CHOOSE e \in hits : TRUE].n])
               ELSE hist
    /\ UNCHANGED <<nodes, phase, cur, want>>
    /\ act' = [a |-> "Register", d |-> d, alias |-> alias, impl |-> impl]

\* dataset.set_dispatch(m): at any time the dispatch expression of a dataset is replaced; everything registered so
\* far stays registered (and is now looked up under the new dispatch value), the default implementation and the
\* callback stay.  (Derivatives made earlier with with_options keep the table they were derived with: the action
\* is stated for datasets without derivatives.)
SetDispatch(d, p) ==      \* the new dispatch is Option(p) (with the default / domain of the option it replaces)
    /\ d \in 1 .. Len(nodes) /\ nodes[d].k = "ds" /\ nodes[d].disp # 0
    /\ LET m == nodes[d].disp IN
       /\ nodes[m].k = "opt" /\ nodes[m].p # p
       /\ \A j \in 1 .. Len(nodes) : j # d => m \notin ChildrenOf(nodes[j])      \* the replaced option is used nowhere else,
       /\ \A t \in DOMAIN tabs : \A e \in 1 .. Len(tabs[t]) : tabs[t][e].n # m        \* not as a registered implementation either
       /\ \A j \in 1 .. Len(nodes) : nodes[j].k = "dsof" => BaseOf(j) # d
       /\ nodes' = [nodes EXCEPT ![m].p = p]
       /\ hist' = Append(hist, [a |-> "SetDispatch", d |-> d, p |-> p, prev |-> nodes[m].p])
    /\ cur = NoDict /\ want = "none" /\ phase = "calls" /\ LateRegister
    /\ UNCHANGED <<tabs, phase, cur, want>>
    /\ act' = [a |-> "SetDispatch", d |-> d, p |-> p]

\* choosing the dictionary of the next call (a separate cheap step, so that random simulation
\* does not have to evaluate the semantics under every dictionary to pick one)
Pick(o) ==
    /\ (RequireComplete => Complete) /\ nodes # <<>> /\ cur = NoDict /\ want = "none"
    /\ (KeepHist => Cardinality({i \in 1 .. Len(hist) : hist[i].a = "Observe"}) < MaxHist)
    /\ cur' = o
    /\ UNCHANGED <<nodes, tabs, phase, want, hist>>
    /\ act' = [a |-> "Pick"]

\* the four public calls on the root under the chosen dictionary, observed together
Observe ==
    LET o == cur IN
    /\ cur # NoDict
    /\ cur' = NoDict
    /\ phase' = "calls"
    /\ hist' = IF KeepHist THEN Append(hist, [a |-> "Observe", o |-> o, eval |-> Eval(Root, o)]) ELSE hist
    /\ UNCHANGED <<nodes, tabs, want>>
    /\ act' = [a |-> "Observe", n |-> Root, o |-> o,
               eval |-> Eval(Root, o), validate |-> Validate(Root, o),
               keys |-> KeysOf(Root, o), explain |-> Explain(Root, o),
               mentions |-> Mentions(Root), reads |-> TemplateReads(Root, o),
               restrict |-> LET k == KeysOf(Root, o) IN IF k.ok THEN Restrict(o, k.ks) ELSE EmptyD,
               permit |-> Permit(Root, o), dem |-> Dem(Root, o), demk |-> DemK(Root, o), cacheslazy |-> CachesLazy(Root, o),
               valruns |-> LET vr == ValRuns(Root, o) IN vr \cup {BaseOf(m) : m \in vr},
               maylog |-> MayLog(Root, o), mustlog |-> MustLog(Root, o), nolog |-> NoLog(Root, o),
               swallows |-> Swallows(Root, o) \/ LET k == KeysOf(Root, o) IN k.ok /\ Swallows(Root, Restrict(o, k.ks)),
               keyblind |-> KeyBlind(Root, o) \/ LET k == KeysOf(Root, o) IN k.ok /\ KeyBlind(Root, Restrict(o, k.ks)),
               visited |-> {x.n : x \in Visit(Root, o)} \cup {BaseOf(x.n) : x \in Visit(Root, o)},
               raises |-> Raises, hist |-> hist,
               set0 |-> LET r == NodeRec(Root) IN IF r.k = "opt" /\ (o.t = "d") THEN SetPath(r.p, I(0), o) ELSE EmptyD, visitedn |-> {x.n : x \in Visit(Root, o)},
               overlay |-> LET r == NodeRec(Root) IN
                           IF r.k = "with" THEN Overlay(r, o) ELSE IF r.k = "ds" THEN DsOptions(r, o) ELSE o]

=============================================================================
