"""Projecting what the real code did onto the observation vocabulary of the specification."""
import copy

from .codec import UserRaise, force, show, strict_eq


def _chain(e):
    out = []
    seen = set()
    while e is not None and id(e) not in seen:
        seen.add(id(e))
        out.append(e)
        e = e.__cause__
    return out


def classify(exc, lab, raised=()):
    """Failure class of an exception raised at the public boundary."""
    from labrea.conditional import CaseWhenError, SwitchError
    from labrea.exceptions import EvaluationError, InsufficientInformationError, KeyNotFoundError

    chain = _chain(exc)
    root = chain[-1]
    out = {"ok": False, "boundary": type(exc).__name__,
           "is_evaluation_error": isinstance(exc, EvaluationError)}
    if any(isinstance(e, InsufficientInformationError) for e in chain):
        out["insufficient"] = True
    out["chain"] = chain
    knf = [e for e in chain if isinstance(e, KeyNotFoundError)]
    mine = [e for e in chain if any(e is r for r in raised)]
    if mine:
        out["cls"] = "User"
        out["x"] = getattr(mine[-1], "verif_name", "")
        out["original_is_last"] = mine[-1] is root
    elif knf:
        # the innermost missing-key report (its own cause may be the KeyError of the lookup)
        out["cls"] = "KeyNotFound"
        out["key"] = knf[-1].key
        out["keys_on_chain"] = [e.key for e in knf]
    elif isinstance(root, SwitchError):
        out["cls"] = "Switch"
    elif isinstance(root, CaseWhenError):
        out["cls"] = "CaseWhen"
    elif isinstance(root, UserRaise):
        out["cls"] = "User"
        out["x"] = root.x
    elif isinstance(root, InsufficientInformationError):
        out["cls"] = "Insufficient"
    elif isinstance(root, ValueError) and any(isinstance(e, EvaluationError) for e in chain[:-1]):
        out["cls"] = "Domain"  # _enforce_domain raises ValueError inside Option.evaluate
        out["msg"] = str(root)[:120]
    else:
        out["cls"] = "Raw:" + type(root).__name__
        out["msg"] = str(root)[:200]
    return out


def call(fn, lab, forced=True, raised=()):
    from . import codec

    try:
        v = fn()
    except Exception as e:  # noqa
        return classify(e, lab, raised)
    try:
        n0 = codec.LAZY_SEEN[0]
        if forced:
            v = force(v)
        out = {"ok": True, "v": v}
        if codec.LAZY_SEEN[0] != n0:
            out["lazy"] = True  # the result was (or contained) a one-shot iterator
        return out
    except Exception as e:  # noqa
        out = classify(e, lab, raised)
        out["while_forcing"] = True  # raised while the caller consumed a lazy result, not by evaluate()
        out["lazy"] = True
        return out


def observe_all(root, o, lab):
    """evaluate / validate / keys / explain of `root` under a private copy of `o`."""
    res = {}
    res["eval"] = call(lambda: root.evaluate(copy.deepcopy(o)), lab)
    res["validate"] = call(lambda: root.validate(copy.deepcopy(o)), lab)
    res["keys"] = call(lambda: set(root.keys(copy.deepcopy(o))), lab)
    res["explain"] = call(lambda: set(root.explain(copy.deepcopy(o))), lab)
    return res


# -- comparing an observed outcome with a prescribed one ------------------------------------
def same_failure(got, exp):
    """exp: decoded failure record of the specification {cls, keys(set of dotted), x}."""
    if got.get("ok"):
        return False
    cls = exp["cls"]
    if cls == "KeyNotFound":
        return got.get("cls") == "KeyNotFound" and got.get("key") in exp["keys"]
    if cls == "User":
        return got.get("cls") == "User" and (exp["x"] in ("", got.get("x")))
    if cls == "Insufficient":
        return bool(got.get("insufficient")) or got.get("cls") == "Insufficient"
    return got.get("cls") == cls


def describe(got):
    if got.get("ok"):
        return "ok " + show(got.get("v"))
    extra = got.get("key") or got.get("x") or got.get("msg") or ""
    return "fail %s %s [%s]" % (got.get("cls"), extra, got.get("boundary"))
