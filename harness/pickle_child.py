"""Child interpreter for C20: unpickles graphs in a FRESH process and evaluates them.
usage: python -m harness.pickle_child <in.pkl> <out.json>   (LABREA_SRC selects the library)"""
import json
import pickle
import sys

from .common import import_labrea


def outcome(fn, lab):
    from . import observe
    from .verdicts import _plain

    return _plain(observe.call(fn, lab))


def main():
    lab = import_labrea()
    jobs = pickle.load(open(sys.argv[1], "rb"))
    out = []
    for jid, blob, dicts in jobs:
        try:
            root = pickle.loads(blob)
        except Exception as e:  # noqa
            out.append({"id": jid, "load_error": "%s: %s" % (type(e).__name__, e)})
            continue
        res = []
        for o in dicts:
            res.append({"eval": outcome(lambda: root.evaluate(dict(o)), lab),
                        "keys": outcome(lambda: sorted(root.keys(dict(o))), lab)})
        out.append({"id": jid, "res": res})
    json.dump(out, open(sys.argv[2], "w"))


if __name__ == "__main__":
    main()
