"""Child interpreter for C20: unpickles graphs in a FRESH process and evaluates them.
usage: python -m harness.pickle_child <in.pkl> <out.json>   (LABREA_SRC selects the library)"""
import json
import pickle
import sys

from .common import import_labrea


def outcome(fn, lab):
    from . import observe
    from .verdicts import _plain

    return _plain(observe.call(fn, lab))


def main():
    lab = import_labrea()
    jobs = pickle.load(open(sys.argv[1], "rb"))
    out = []
    from . import picklelib

    for job in jobs:
        jid, blob, dicts = job[:3]
        warm = job[3] if len(job) > 3 else None
        try:
            root = pickle.loads(blob)
        except Exception as e:  # noqa
            out.append({"id": jid, "load_error": "%s: %s" % (type(e).__name__, e)})
            continue
        res = []
        for o in dicts:
            res.append({"eval": outcome(lambda: root.evaluate(dict(o)), lab),
                        "keys": outcome(lambda: sorted(root.keys(dict(o))), lab)})
        item = {"id": jid, "res": res}
        if warm is not None:
            # a copy pickled AFTER dicts[0] had been evaluated: how many bodies run when it is asked again here
            try:
                wroot = pickle.loads(warm)
                n0 = len(picklelib.BODY_LOG)
                item["warm_eval"] = outcome(lambda: wroot.evaluate(dict(dicts[0])), lab)
                item["warm_runs"] = len(picklelib.BODY_LOG) - n0
            except Exception as e:  # noqa
                item["warm_error"] = "%s: %s" % (type(e).__name__, e)
        out.append(item)
    json.dump(out, open(sys.argv[2], "w"))


if __name__ == "__main__":
    main()
