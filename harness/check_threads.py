"""C15: threads.

1. TLC: RuntimeMachine with 2-3 threads (ThreadLocal, InheritSnapshot, ...) and
   ThreadsImpl (critical-section model: AllRegistered, ContextsThreadLocal, OwnValue under
   every interleaving).  The three deliberately broken designs must be *rejected* by TLC
   (non-vacuity of the invariants).
2. spec -> code, operation granularity: paths of the exported multi-thread RuntimeMachine
   graph replayed with one real thread per logical thread.
3. code -> spec, line / bytecode granularity: scenarios run under the deterministic
   scheduler with every placement of <= k preemptions; the recorded call/ret histories are
   checked for linearizability against Threads.tla by TLC (Trace_Threads.tla).
"""
import multiprocessing as mp

from . import check_runtime, evidence, graph, rt_record, tlc
from .common import NPROC, SEED, MachineryError, Scratch, Timer, canon, import_labrea
from .findings import Reporter

_LIB = None


def _schedules_for(steps, names, gran_budget, rng, pairs, hot=None, hot_budget=400):
    """Single preemptions: (thread t at local step i -> thread u); optionally pairs.  Steps inside code that
    touches state shared between threads (`hot`) are all tried (evenly thinned above hot_budget); the other
    steps are sampled within gran_budget."""
    out = []
    for t in names:
        n = steps.get(t, 0)
        if n == 0:
            continue
        if n <= gran_budget:
            pts = list(range(1, n + 1))
        else:
            stride = n / float(gran_budget // 2)
            pts = sorted(set([1 + int(i * stride) for i in range(gran_budget // 2)] +
                             [rng.randint(1, n) for _ in range(gran_budget // 2)]))
            h = sorted(set((hot or {}).get(t, ())))
            if len(h) > hot_budget:
                h = [h[int(i * len(h) / float(hot_budget))] for i in range(hot_budget)]
            pts = sorted(set(pts) | set(h))
        for i in pts:
            for u in names:
                if u != t:
                    out.append([(t, i, u)])
    if pairs:
        singles = list(out)
        for _ in range(pairs):
            a = rng.choice(singles)[0]
            b = rng.choice(singles)[0]
            if a[0] != b[0] or a[1] != b[1]:
                out.append([a, b])
    return out


def _task(args):
    """Run one chunk of (scenario index, granularity, schedule list) in a fresh process."""
    from . import sched, thr_exec

    labrea = sched.install_coop_locks(import_labrea)
    sc_idx, scenario, gran, schedules = args
    res = []
    for schedule in schedules:
        ev, steps, dl, fired, errs = thr_exec.run_scenario(labrea, scenario, schedule, gran)
        res.append((schedule, ev, dl, errs, fired))
    return sc_idx, gran, res


def _baseline(args):
    from . import sched, thr_exec

    labrea = sched.install_coop_locks(import_labrea)
    out = []
    for sc_idx, scenario, gran in args:
        ev, steps, dl, fired, errs = thr_exec.run_scenario(labrea, scenario, [], gran)
        out.append((sc_idx, gran, steps, ev, dl, errs, getattr(thr_exec.run_scenario, "last_hot", {})))
    return out


def _thread_lifetimes(rt, rounds=40):
    import threading

    class Req(rt.Request):
        options = {}

    Req.handle(lambda r: "default")
    main = threading.current_thread()
    for i in range(rounds):
        got = {}

        def worker():
            rt.inherit(main)
            got["worker"] = Req().run()

        def fresh():
            got["fresh"] = Req().run()

        with rt.handle(Req, lambda r: "custom"):
            for fn in (worker, fresh):
                t = threading.Thread(target=fn)
                t.start()
                t.join()
        if got.get("worker") != "custom":
            return "round %d: a worker that called inherit(main) inside main's handler block was served by %r" % (i, got.get("worker"))
        if got.get("fresh") != "default":
            return ("round %d: a brand-new thread (no inherit) started after an inheriting worker had finished was served by %r, "
                    "not by the default" % (i, got.get("fresh")))
    return None


def main(tier):
    from . import thr_exec

    prop = "C15"
    timer = Timer()
    rep = Reporter(prop)
    quick = tier == "quick"
    rng = graph.rng_for(SEED, "c15")
    with Scratch() as sc:
        # ---- 1. model checking -----------------------------------------------------
        mc_cfgs = ["MC_Runtime_c15_quick.cfg"] if quick else ["MC_Runtime_c15_quick.cfg", "MC_Runtime_x3.cfg", "MC_Runtime_x4.cfg"]
        states = trans = 0
        mcs = {}
        for c in mc_cfgs:
            r = tlc.require_clean(tlc.run_tlc("MC_Runtime", c, workers=NPROC, scratch=sc), c)
            mcs[c] = r
            states += r.distinct
            trans += r.generated
        impl = tlc.require_clean(tlc.run_tlc("ThreadsImpl", "MC_ThreadsImpl_ok.cfg", workers=NPROC, scratch=sc),
                                 "ThreadsImpl")
        states += impl.distinct
        trans += impl.generated
        broken = {}
        for v, inv in (("nolock", "AllRegistered"), ("objprev", "ContextsThreadLocal"), ("nokey", "OwnValue")):
            r = tlc.run_tlc("ThreadsImpl", "MC_ThreadsImpl_%s.cfg" % v, workers=NPROC, scratch=sc)
            if not (r.violation and inv in r.violation):
                raise MachineryError("vacuity guard: broken design %s was not rejected by invariant %s" % (v, inv))
            broken[v] = inv

        # ---- 2. operation-granularity replay of the multi-thread machine -------------
        g = graph.Graph()
        gen_cfg = "Gen_Runtime_c15_quick.cfg"
        tlc.require_clean(tlc.run_tlc("MC_Runtime", gen_cfg, workers=1, scratch=sc, collect="EDGE ",
                                      line_cb=g.add_edge_payload), gen_cfg)
        if g.nstates() != mcs["MC_Runtime_c15_quick.cfg"].distinct:
            raise MachineryError("exported graph and model-checked graph differ")
        check_runtime._G = g
        threads = ["t1", "t2"]
        maxlen, split = (4, 2) if quick else (5, 2)
        walks, walk_len = (20000, 14) if quick else (200000, 18)
        tasks = [("prefix", (p, maxlen), threads) for p in g.prefixes(split)]
        tasks.append(("list", [p for p in g.paths_under([], split - 1)], threads))
        per = max(1, walks // (NPROC * 4))
        tasks += [("walks", ("c15w%d" % i, per, walk_len), threads) for i in range(walks // per)]
        ctx = mp.get_context("fork")
        op_total = op_nontriv = 0
        bad = []
        with ctx.Pool(NPROC, maxtasksperchild=1) as pool:
            for n, nt, b in pool.imap_unordered(check_runtime._task, tasks):
                op_total += n
                op_nontriv += nt
                bad.extend(b)
        bad.sort(key=lambda lm: (lm[1]["step"], canon(lm[0])))
        for labels, m in bad:
            rep.violation(check_runtime._signature(labels, m), {
                "kind": "runtime", "threads": threads, "types": check_runtime.TYPES,
                "init_defaults": check_runtime.INIT_DEFAULTS, "labels": labels[: m["step"] + 1], "mismatch": m})

        # ---- 3. fine-grained schedules -------------------------------------------------
        lib = thr_exec.library()
        nrand = 6 if quick else 40
        lib += [thr_exec.random_scenario(graph.rng_for(SEED, "scn%d" % i), i) for i in range(nrand)]
        jobs = []
        for i, scn in enumerate(lib):
            jobs.append((i, scn, "opcode"))
            jobs.append((i, scn, "line"))
        with ctx.Pool(NPROC, maxtasksperchild=1) as pool:
            base = [x for chunk in pool.map(_baseline, [jobs[k::NPROC] for k in range(NPROC)]) for x in chunk]
        traces = {}  # canonical trace -> (scenario idx, gran, schedule, events)
        tasks = []
        nsched = 0
        budget_op, budget_line = (300, 120) if quick else (3000, 1200)
        for sc_idx, gran, steps, ev, dl, errs, hot in base:
            scn = lib[sc_idx]
            names = sorted(scn["threads"])
            if dl or errs:
                rep.violation({"scenario": scn["name"], "schedule": [], "what": "deadlock" if dl else errs},
                              {"kind": "schedule", "scenario": scn, "granularity": gran, "schedule": []})
            traces.setdefault(canon(ev), (sc_idx, gran, [], ev))
            heavy = max(steps.values() or [0]) > 2000
            if gran == "opcode" and heavy and quick:
                budget = 60
            else:
                budget = budget_op if gran == "opcode" else budget_line
            scheds = _schedules_for(steps, names, budget, rng, pairs=0 if quick else 400, hot=hot,
                                    hot_budget=250 if quick else 4000)
            nsched += len(scheds)
            for k in range(0, len(scheds), 50):
                tasks.append((sc_idx, scn, gran, scheds[k:k + 50]))
        deadlocks = 0
        with ctx.Pool(NPROC, maxtasksperchild=4) as pool:
            for sc_idx, gran, res in pool.imap_unordered(_task, tasks):
                for schedule, ev, dl, errs, fired in res:
                    if dl or errs:
                        deadlocks += 1
                        rep.violation({"scenario": lib[sc_idx]["name"], "what": "deadlock" if dl else errs},
                                      {"kind": "schedule", "scenario": lib[sc_idx], "granularity": gran,
                                       "schedule": schedule})
                        continue
                    traces.setdefault(canon(ev), (sc_idx, gran, schedule, ev))
        tl = list(traces.values())
        nval2, rejected2, tres = rt_record.validate([t[3] for t in tl], sc, cfg="Trace_Threads.cfg",
                                                    module="Trace_Threads")
        for idx, line in rejected2:
            sc_idx, gran, schedule, ev = tl[idx]
            rep.violation({"scenario": lib[sc_idx]["name"], "rejected_event": ev[line - 1] if line - 1 < len(ev) else None},
                          {"kind": "schedule", "scenario": lib[sc_idx], "granularity": gran,
                           "schedule": schedule, "trace": ev, "rejected_at": line})

        # ---- 2b. recorded multi-thread op-level traces beyond the bounds ---------------
        import_labrea()
        import labrea.runtime as rt

        ntr = 1500 if quick else 15000
        rec = rt_record.record_many(rt, SEED, "c15", ntr, ["t1", "t2", "t3"], 40)
        nval, rejected, _ = rt_record.validate(rec, sc)
        for idx, line in rejected:
            tr = rec[idx][:max(line, 1)]
            rep.violation({"trace": [{k: v for k, v in e.items() if k != "res"} for e in tr],
                           "observed": tr[-1].get("res", tr[-1].get("exc"))},
                          {"kind": "rt-trace", "threads": ["t1", "t2", "t3"], "trace": tr, "rejected_at": line})

        # ---- 2c. thread lifetimes ------------------------------------------------------
        # a thread of RuntimeMachine that has done nothing yet has no context (Cur = 0: defaults serve it).  Real
        # threads end and new ones start: a brand-new thread is such a thread, whatever threads that have ended did
        # (a worker that inherited the main thread's context and finished must leave nothing behind for it)
        m = _thread_lifetimes(rt)
        if m:
            rep.violation({"probe": "fresh-thread-after-finished-worker"}, {"kind": "probe", "name": "thread-lifetimes", "detail": m})

        code = rep.finish()
        sample = tl[len(tl) // 2]
        evidence.write(prop, tier, "model_checking", {
            "states": states + tres.distinct,
            "transitions": trans + tres.generated,
            "traces_validated_against_impl": op_total + len(rec) + len(tl),
            "evaluations": op_total + len(rec) + nsched + len(base),
            "distinct_nontrivial": len(tl) + op_nontriv,
            "rule": "(a) every path of length <= %d of the TLC-exported 2-thread RuntimeMachine graph + %d random walks, "
                    "replayed with one real thread per logical thread (operation granularity); (b) %d recorded random "
                    "3-thread executions validated by TLC against Trace_Runtime; (c) %d scenarios (library + seeded random) "
                    "run under the deterministic scheduler at bytecode and line granularity with every single preemption "
                    "(sub-sampled above the per-scenario budget)%s: %d schedules, %d distinct call/ret histories, each "
                    "checked for linearizability against Threads.tla by TLC. non-trivial = distinct histories (c) plus "
                    "op-level paths that leave an entered block (a)" % (
                        maxlen, walks, len(rec), len(lib), "" if quick else " and 400 random preemption pairs per scenario",
                        nsched, len(tl)),
            "samples": [{"scenario": lib[sample[0]]["name"], "granularity": sample[1], "schedule": sample[2],
                         "history": sample[3]}],
            "exhaustive": False,
            "broken_designs_rejected_by_tlc": broken,
            "schedules_run": nsched,
            "distinct_histories": len(tl),
            "op_level_paths": op_total,
            "recorded_op_level_traces": len(rec),
            "tlc": {"mc_cfgs": mc_cfgs, "impl": "MC_ThreadsImpl_ok.cfg", "trace_specs": ["Trace_Runtime", "Trace_Threads"]},
            "known_finding_hits": rep.known_hits,
        }, timer.s(), violations=len(rep.violations), assumptions=[
            "preemption points are bytecode boundaries of frames under labrea/ (C-level sections are atomic under the GIL)",
            "every lock labrea creates through threading.Lock is replaced by a cooperative lock (harness/sched.py)",
            "at most one (quick) / two (thorough, sampled) preemptions per schedule",
        ])
        return code


def replay_file(doc):
    """Re-run a recorded schedule (or re-validate a recorded op-level trace) and print the verdict."""
    from . import sched, thr_exec

    with Scratch() as sc:
        if doc["kind"] == "schedule":
            labrea = sched.install_coop_locks(import_labrea)
            ev, steps, dl, fired, errs = thr_exec.run_scenario(
                labrea, doc["scenario"], [tuple(x) for x in doc["schedule"]], doc["granularity"])
            if dl or errs:
                print("replay: deadlock/exception under the schedule: %s" % (errs or "deadlock"))
                print("VIOLATION property=%s replay=%s" % (doc.get("property"), doc.get("_path")))
                return 1
            nval, rejected, _ = rt_record.validate([ev], sc, cfg="Trace_Threads.cfg", module="Trace_Threads")
            for e in ev:
                print("  ", canon(e))
            if rejected:
                print("replay: history is NOT linearizable w.r.t. Threads.tla; longest matched prefix: %d events" % (rejected[0][1] - 1))
                print("VIOLATION property=%s replay=%s" % (doc.get("property"), doc.get("_path")))
                return 1
            print("replay: the history produced by this schedule is now accepted")
            return 0
        # rt-trace: replay the recorded operations, record afresh, validate
        import_labrea()
        import labrea.runtime as rt
        from . import rt_exec

        w = rt_exec.World(rt, rt_record.TYPES, rt_record.INIT_DEFAULTS, doc["threads"])
        tr = []
        try:
            for e in doc["trace"]:
                a = {k: v for k, v in e.items() if k not in ("res", "exc")}
                status, val = w.do(a) if a["a"] != "Probe" else w.workers[a["t"]].call(("Probe",))
                if isinstance(val, dict):
                    val.pop("__current__", None)
                if status == "exc":
                    a["exc"] = val
                elif a["a"] == "Probe":
                    a["res"] = val
                tr.append(a)
        finally:
            w.close()
        nval, rejected, _ = rt_record.validate([tr], sc)
        if rejected:
            print("replay: trace rejected by Trace_Runtime at line %d: %s" % (rejected[0][1], canon(tr[rejected[0][1] - 1])))
            print("VIOLATION property=%s replay=%s" % (doc.get("property"), doc.get("_path")))
            return 1
        print("replay: the recorded operations now produce an accepted trace")
        return 0
