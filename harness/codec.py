"""Tagged values of spec/Values.tla  <->  Python values.

Decoding direction only carries data computed by TLC; there is no semantics here.
"""


class Pred:
    """The callable a `pred` node evaluates to (predicate value [t |-> "P"])."""

    make_exc = None  # set by build.Built for the duration of a replay (exception kind under test)

    def __init__(self, pred, arg):
        self.pred = pred
        self.arg = arg

    def __call__(self, x):
        p = self.pred
        if p == "eq":
            return strict_eq(x, self.arg)
        if p == "ne":
            return not strict_eq(x, self.arg)
        if p == "truthy":
            return bool(x)
        if p == "always":
            return True
        if p == "never":
            return False
        if p == "raise":
            raise (Pred.make_exc("pred") if Pred.make_exc else UserRaise("pred"))
        raise ValueError(p)

    def __eq__(self, other):
        return isinstance(other, Pred) and self.pred == other.pred and strict_eq(self.arg, other.arg)

    def __hash__(self):
        return hash(("Pred", self.pred))

    def __repr__(self):
        return "Pred(%r, %r)" % (self.pred, self.arg)


class UserRaise(Exception):
    """Raised by harness-supplied callables that the behaviour declares partial."""

    def __init__(self, x):
        super().__init__(x)
        self.x = x


def tokens_to_str(toks):
    out = []
    for t in toks:
        k = t["k"]
        if k == "c":
            out.append(t["c"])
        elif k == "r":
            out.append("{" + ".".join(t["p"]) + "}")
        elif k == "str":
            out.append(str(dec(t["v"])))
        elif k == "el":
            out.append("\\{")
        elif k == "er":
            out.append("\\}")
        else:
            raise ValueError(t)
    return "".join(out)


def dec(v):
    t = v["t"]
    if t == "i":
        return v["i"]
    if t == "b":
        return v["b"]
    if t == "n":
        return None
    if t == "s":
        return tokens_to_str(v["s"])
    if t == "l":
        return [dec(x) for x in v["l"]]
    if t == "u":
        return tuple(dec(x) for x in v["l"])
    if t == "e":
        return frozenset(dec(x) for x in v["e"])
    if t == "d":
        d = v["d"]
        if isinstance(d, list):  # TLC prints an empty function as []
            if d:
                raise ValueError("non-empty list as dict payload: %r" % (d,))
            return {}
        return {k: dec(x) for k, x in d.items()}
    if t == "T":
        return ("T", v["f"], tuple(dec(x) for x in v["a"]))
    if t == "P":
        return Pred(v["pred"], dec(v["arg"]))
    raise ValueError("cannot decode %r" % (v,))


def strict_eq(a, b):
    """Equality that does not identify True with 1 or 1 with 1.0, recursively."""
    if isinstance(a, bool) or isinstance(b, bool):
        return isinstance(a, bool) and isinstance(b, bool) and a == b
    if isinstance(a, (int, float)) and isinstance(b, (int, float)):
        return type(a) is type(b) and a == b
    if isinstance(a, (list, tuple)) and isinstance(b, (list, tuple)):
        return type(a) is type(b) and len(a) == len(b) and all(strict_eq(x, y) for x, y in zip(a, b))
    if isinstance(a, dict) and isinstance(b, dict):
        return a.keys() == b.keys() and all(strict_eq(a[k], b[k]) for k in a)
    if isinstance(a, (set, frozenset)) and isinstance(b, (set, frozenset)):
        return len(a) == len(b) and all(any(strict_eq(x, y) for y in b) for x in a)
    if type(a) is not type(b):
        return False
    return a == b


LAZY_SEEN = [0]


def force(v, depth=0):
    """Materialise generators (Iter / Map return lazy iterables) so results can be compared;
    exceptions raised while forcing propagate to the caller (they are the evaluation's).
    LAZY_SEEN counts the one-shot iterators that were consumed."""
    import types

    if isinstance(v, (types.GeneratorType, map, filter, zip)) or (
            hasattr(v, "__next__") and hasattr(v, "__iter__")):
        LAZY_SEEN[0] += 1
        return [force(x, depth + 1) for x in v]
    if isinstance(v, list):
        return [force(x, depth + 1) for x in v]
    if isinstance(v, tuple):
        return tuple(force(x, depth + 1) for x in v)
    if isinstance(v, dict):
        return {k: force(x, depth + 1) for k, x in v.items()}
    return v


def dotted(path):
    return ".".join(path)


def keyset(paths):
    return {dotted(p) for p in paths}


def show(v):
    r = repr(v)
    return r if len(r) < 300 else r[:300] + "..."
