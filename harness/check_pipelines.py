"""C13: pipelines (spec/Pipelines.tla).  TLC enumerates every bracketing of every step sequence
up to the length bound (and the helper table), checks the algebraic laws on the specification and
exports one CASE per (term, input, options); each is replayed on real labrea pipelines."""
import copy
import json
import multiprocessing as mp

from . import evidence, tlc
from .codec import dec, force, keyset, show, strict_eq
from .common import NPROC, MachineryError, Scratch, Timer, canon, import_labrea
from .findings import Reporter


def _dec(v):
    if v["t"] == "q":
        return v["n"] / v["m"]
    return dec(v)


def _h3(a, x, c):
    return ("T", "h3", (a, x, c))


# the named constant callables of Pipelines.tla (FnApply / KeyFn / KeyPred), defined on this side too
FN = {
    "g": lambda x: ("T", "g", (x,)),
    "h2": lambda a, b: ("T", "h2", (a, b)),
    "inc": lambda x: x + 1,
    "dup": lambda x: [x, x],
    "isPos": lambda x: x > 0,
    "isBig": lambda x: x > 1,
    "ident": lambda x: x,
    "kz": lambda k: k + "z",
    "isA": lambda k: k == "a",
    "kzinc": lambda k, v: (k + "z", v + 1),
    "isAorBig": lambda k, v: k == "a" or v > 1,
    "int": int, "str": str, "list": list, "bool": bool,
}
NO_PARAM = {"flatten", "negative", "non_positive", "non_negative", "odd", "is_not_none"}


def _norm(v):
    import types

    if isinstance(v, types.MappingProxyType):
        v = dict(v)
    if isinstance(v, dict):
        return {k: _norm(x) for k, x in v.items()}
    if isinstance(v, list):
        return [_norm(x) for x in v]
    if isinstance(v, tuple):
        return tuple(_norm(x) for x in v)
    return v


class World:
    def __init__(self, lab):
        import labrea.functions as F
        from labrea.pipeline import Pipeline

        self.lab, self.F, self.Pipeline = lab, F, Pipeline
        self.log = []
        log = self.log

        @lab.pipeline_step
        def S1(x, p=lab.Option("P")):
            log.append("S1")
            return ("T", "S1", (x, p))

        @lab.pipeline_step
        def S2(x, q=lab.Option("Q", 5)):
            log.append("S2")
            return ("T", "S2", (x, q))

        def c(x):
            log.append("c")
            return ("T", "c", (x,))

        self.steps = {"S1": S1, "S2": S2, "c": c}

    def step(self, s):
        k = s["k"]
        if k == "dec":
            return self.steps[s["name"]]
        if k == "plain":
            return self.Pipeline() + self.steps["c"]
        if k == "empty":
            return self.Pipeline()
        if k == "helper":
            if s["mode"] == "none":
                return getattr(self.F, s["h"])
            arg = _dec(s["c"]) if s["mode"] == "const" else self.lab.Option(".".join(s["p"]))
            return getattr(self.F, s["h"])(arg)
        if k == "helperG":
            h = s["h"]
            ps = [FN[p["f"]] if p["mode"] == "fn" else _dec(p["c"]) if p["mode"] == "const" else self.lab.Option(".".join(p["p"]))
                  for p in s["ps"]]
            if h in NO_PARAM:
                return getattr(self.F, h)
            if h == "partial":
                return self.Pipeline() + self.F.partial(_h3, ps[0], c=ps[1])
            return getattr(self.F, h)(*ps)
        raise ValueError(k)

    def build(self, term):
        if term["t"] == "leaf":
            return self.step(term["s"])
        return self.build(term["l"]) + self.build(term["r"])


def _outcome(fn):
    try:
        return {"ok": True, "v": _norm(force(fn()))}
    except Exception as e:  # noqa
        chain = []
        while e is not None and e not in chain:
            chain.append(e)
            e = e.__cause__
        from labrea.exceptions import KeyNotFoundError

        knf = [x for x in chain if isinstance(x, KeyNotFoundError)]
        if knf:
            return {"ok": False, "cls": "KeyNotFound", "key": knf[-1].key}
        if any(isinstance(x, LookupError) for x in chain):
            return {"ok": False, "cls": "Lookup"}
        if any(isinstance(x, AssertionError) for x in chain):
            return {"ok": False, "cls": "Assertion"}
        return {"ok": False, "cls": "Raw:" + type(chain[-1]).__name__, "msg": str(chain[-1])[:100]}


def _cmp(bad, clause, got, exp):
    if exp["ok"]:
        ev = _dec(exp["v"])
        if not got["ok"] or not strict_eq(got["v"], ev):
            bad.append((clause, "expected %s, got %s" % (show(ev), got)))
    elif exp["cls"] == "KeyNotFound":
        if got["ok"] or got.get("cls") != "KeyNotFound" or got.get("key") not in keyset(exp["keys"]):
            bad.append((clause, "expected a missing-key failure for %s, got %s" % (sorted(keyset(exp["keys"])), got)))
    elif exp["cls"] in ("Lookup", "Assertion"):
        if got["ok"] or got.get("cls") != exp["cls"]:
            bad.append((clause, "expected a %s failure, got %s" % (exp["cls"].lower(), got)))


def judge_agree(lab, case):
    """C10 on pipelines: validate / keys / evaluate of the real pipeline succeed or fail together."""
    bad = []
    if not case["res"]["ok"] and case["res"]["cls"] == "IllTyped":
        return None, bad
    w = World(lab)
    o = dec(case["o"])
    p = w.build(case["term"])
    v = _outcome(lambda: p.validate(copy.deepcopy(o)))
    k = _outcome(lambda: set(p.keys(copy.deepcopy(o))))
    e = _outcome(lambda: p.evaluate(copy.deepcopy(o)))
    if not (v["ok"] == k["ok"] == e["ok"]):
        bad.append(("agree-pipeline", "validate: %s | keys: %s | evaluate: %s" % (
            "ok" if v["ok"] else v, "ok" if k["ok"] else k, "ok" if e["ok"] else e)))
    if w.log:
        bad.append(("validate-runs-steps", "validate/keys/evaluate of the pipeline itself ran steps %s" % w.log))
    return (not case["keys"]["ok"]), bad


def judge(lab, case):
    bad = []
    if not case["res"]["ok"] and case["res"]["cls"] == "IllTyped":
        return None, bad
    w = World(lab)
    term, o, x = case["term"], dec(case["o"]), _dec(case["x"])
    p = w.build(term)
    if w.log:
        bad.append(("construction-runs", "building the pipeline ran %s" % w.log))
    from labrea.pipeline import Pipeline, PipelineStep

    pipe = p if isinstance(p, Pipeline) else Pipeline(p)
    # iteration order (behavioural: apply every yielded step to a probe under full options)
    if term["t"] == "plus" or term["s"]["k"] not in ("helper", "helperG"):
        full = {"P": 100, "Q": 200}
        names = []
        for st in pipe:
            probe = 1
            r = st(full)(probe)
            if r is probe:
                continue
            names.append(r[1] if isinstance(r, tuple) else "add" if r == 101 else "?")
        if names != list(case["names"]):
            bad.append(("iteration-order", "list(pipeline) applies %s, the steps in application order are %s" % (names, case["names"])))
    got = _outcome(lambda: pipe.transform(copy.deepcopy(x), copy.deepcopy(o)))
    _cmp(bad, "transform", got, case["res"])
    if isinstance(x, dict):
        # a Mapping that is not a dict (what map_values / filter_items ... hand on) is treated like one
        import types as _types

        _cmp(bad, "transform-mapping-input", _outcome(lambda: pipe.transform(_types.MappingProxyType(copy.deepcopy(x)), copy.deepcopy(o))), case["res"])
    # parameters are read from the options when the pipeline is EVALUATED, not when it is applied
    live = copy.deepcopy(o)
    fn = _outcome(lambda: pipe.evaluate(live))
    missing = (not case["res"]["ok"]) and case["res"]["cls"] == "KeyNotFound"
    if missing and fn["ok"]:
        bad.append(("params-at-evaluation", "evaluate() succeeded although a step parameter's option is missing (%s)" % sorted(keyset(case["res"]["keys"]))))
    if fn["ok"]:
        for k in list(live):
            live[k] = 777
        live["P"] = live["Q"] = 777
        late = _outcome(lambda: fn["v"](copy.deepcopy(x)))
        if case["res"]["ok"] or case["res"]["cls"] != "KeyNotFound":
            _cmp(bad, "params-at-evaluation", late, case["res"])
        # the evaluated pipeline is an ordinary function: applying it again gives the same result, and so does
        # applying it to every element of a list (as the function parameter of the helper step `map`)
        if case["res"]["ok"]:
            _cmp(bad, "function-reusable", _outcome(lambda: fn["v"](copy.deepcopy(x))), case["res"])
            oxs = dict(copy.deepcopy(o), XS=[copy.deepcopy(x), copy.deepcopy(x)])
            each = _outcome(lambda: (lab.Option("XS") >> w.F.map(p) >> list)(oxs))
            ev = _dec(case["res"]["v"])
            if not (each["ok"] and strict_eq(each["v"], [ev, ev])):
                bad.append(("function-reusable", "map(pipeline) over [x, x] gives %s, expected twice %s" % (each, show(ev))))
    # a pipeline object has no memory: after being used under other dictionaries (none of its keys present;
    # all of them present with other values) it yields the specification's result for THIS dictionary
    w2 = World(lab)
    p2 = w2.build(term)
    pipe2 = p2 if isinstance(p2, Pipeline) else Pipeline(p2)
    _outcome(lambda: pipe2.transform(copy.deepcopy(x), {}))
    _outcome(lambda: pipe2.transform(copy.deepcopy(x), {k: 900 + i for i, k in enumerate(["P", "Q", "A", "B", "K"])}))
    _cmp(bad, "reuse", _outcome(lambda: pipe2.transform(copy.deepcopy(x), copy.deepcopy(o))), case["res"])
    if isinstance(p, PipelineStep):
        _cmp(bad, "step-transform", _outcome(lambda: p.transform(copy.deepcopy(x), copy.deepcopy(o))), case["res"])
    ox = dict(copy.deepcopy(o), X=copy.deepcopy(x))
    via = _outcome(lambda: (lab.Option("X") >> p)(ox))
    _cmp(bad, "rshift", via, case["res"])
    if case["keys"]["ok"]:
        k = _outcome(lambda: set(pipe.keys(copy.deepcopy(o))))
        need = keyset(case["keys"]["ks"])
        if not k["ok"] or not need <= k["v"]:
            bad.append(("keys", "keys() = %s lacks parameter keys %s" % (k, sorted(need))))
    e = _outcome(lambda: set(pipe.explain(copy.deepcopy(o))))
    need = keyset(case["explain"])
    if not e["ok"] or not need <= e["v"]:
        bad.append(("explain", "explain() = %s lacks parameter keys %s" % (e, sorted(need))))
    if term["t"] == "plus" and case["res"]["ok"]:
        l, r = w.build(term["l"]), w.build(term["r"])
        l = l if isinstance(l, Pipeline) else Pipeline(l)
        r = r if isinstance(r, Pipeline) else Pipeline(r)
        comp = _outcome(lambda: r.transform(l.transform(copy.deepcopy(x), copy.deepcopy(o)), copy.deepcopy(o)))
        if not (comp["ok"] and got["ok"] and strict_eq(comp["v"], got["v"])):
            bad.append(("compose", "(p + q).transform(x) = %s but q.transform(p.transform(x)) = %s" % (got, comp)))
    return (term["t"] == "plus" or term["s"]["k"] in ("helper", "helperG")), bad


_JUDGE = ["C13"]


def _task(payloads):
    lab = import_labrea()
    out = []
    n = nt = 0
    for p in payloads:
        case = json.loads(p)
        n += 1
        nontrivial, bad = (judge if _JUDGE[0] == "C13" else judge_agree)(lab, case)
        if nontrivial:
            nt += 1
        for clause, detail in bad:
            if len(out) < 100:
                out.append((clause, detail, case))
    return n, nt, out


def run(prop, tier, sc, rep):
    """Generates the pipeline cases and judges them for `prop`; violations go to rep."""
    _JUDGE[0] = prop
    maxlen = (4 if tier == "quick" else 5) if prop == "C13" else (3 if tier == "quick" else 4)
    states = trans = total = nontriv = 0
    viol = []
    sample = None
    if True:
        for mode, ml in ((("structure", maxlen), ("helpers", 1), ("helpers2", 1)) if prop == "C13" else (("structure", maxlen),)):
            cfg = sc.path("cfg", "MC_Pipelines_%s.cfg" % mode)
            with open(cfg, "w") as f:
                f.write('SPECIFICATION Spec\nCONSTANTS\n  MaxLen = %d\n  Mode = "%s"\nINVARIANT Laws\nACTION_CONSTRAINT Emit\nCHECK_DEADLOCK FALSE\n' % (ml, mode))
            import os
            from .common import SPEC
            res = tlc.require_clean(tlc.run_tlc("MC_Pipelines", os.path.relpath(cfg, os.path.join(SPEC, "cfg")), workers=1,
                                                scratch=sc, collect="CASE "), "MC_Pipelines/" + mode)
            states += res.distinct
            trans += res.generated
            cases = res.lines
            if not cases:
                raise MachineryError("no pipeline case generated for mode %s" % mode)
            sample = sample or json.loads(cases[len(cases) // 2])
            chunks = [cases[i:i + 300] for i in range(0, len(cases), 300)]
            ctx = mp.get_context("fork")
            with ctx.Pool(NPROC) as pool:
                for n, nt, out in pool.imap_unordered(_task, chunks):
                    total += n
                    nontriv += nt
                    viol.extend(out)
    viol.sort(key=lambda v: (len(canon(v[2]["term"])), canon(v[2])))
    for clause, detail, case in viol:
        rep.violation({"clause": clause, "term": case["term"], "o": case["o"], "x": case["x"]},
                      {"kind": "pipeline", "prop": prop, "clause": clause, "detail": detail, "case": case})
    return states, trans, total, nontriv, viol, sample, maxlen


def main(tier):
    prop = "C13"
    timer = Timer()
    rep = Reporter(prop)
    with Scratch() as sc:
        states, trans, total, nontriv, viol, sample, maxlen = run(prop, tier, sc, rep)
    import os
    import sys
    if viol and os.environ.get("VERIF_VERBOSE"):
        seen = set()
        for clause, detail, case in viol:
            if clause not in seen and len(seen) < 8:
                seen.add(clause)
                print("  clause=%s %s\n     term=%s o=%s" % (clause, detail, canon(case["term"]), canon(case["o"])), file=sys.stderr)
    code = rep.finish()
    evidence.write(prop, tier, "model_checking", {
        "states": states, "transitions": trans, "traces_validated_against_impl": total,
        "evaluations": total, "distinct_nontrivial": nontriv,
        "rule": "every bracketing of every sequence of <= %d steps over {decorated step with an option parameter, decorated step with "
                "a defaulted option parameter, plain callable, helper step add(Option), empty pipeline} x 4 option dictionaries, and "
                "the helper table (%s helpers, parameter as constant and as option, typed inputs); on real pipelines: list(p) applies the "
                "steps in order, p.transform = (e >> p) = the specification's fold, keys()/explain() contain the parameter keys, "
                "(p + q).transform = q.transform after p.transform; TLC checks Assoc / IdLeft / IdRight / Compose on the specification; "
                "non-trivial = composed pipelines and helper cases" % (maxlen, "31 one-parameter + 35 general (function-valued, two-parameter, variadic, dictionary)"),
        "samples": [sample], "exhaustive": True,
        "known_finding_hits": rep.known_hits,
    }, timer.s(), violations=len(rep.violations), assumptions=[
        "uninterpreted steps return terms; helpers are checked on integer / list inputs",
        "true division is compared as the IEEE quotient of the same integers"])
    return code


def replay_file(doc):
    lab = import_labrea()
    nt, bad = (judge_agree if doc.get("prop") == "C10" else judge)(lab, doc["case"])
    if not bad:
        print("replay: the recorded pipeline case now conforms")
        return 0
    for clause, detail in bad:
        print("replay: %s: %s" % (clause, detail))
    print("VIOLATION property=%s replay=%s" % (doc.get("prop", "C13"), doc.get("_path")))
    return 1
