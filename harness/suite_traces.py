"""code -> spec on the repository's OWN test suite: the cache requests of a full pytest session (recorded by
harness/pytest_plugin.py through wrapped default handlers) validated by TLC against spec/Trace_Requests.tla."""
import json
import os
import subprocess
import sys

from . import rt_record
from .common import LABREA_SRC, VERIF, MachineryError


def run(prop, tier, sc, rep):
    out = sc.path("suite", "session.ndjson")
    env = dict(os.environ, VERIF_SUITE_TRACES=out, PYTHONPATH=VERIF + os.pathsep + os.path.abspath(LABREA_SRC))
    r = subprocess.run([sys.executable, "-m", "pytest", "-q", "-p", "no:cacheprovider", "-p", "harness.pytest_plugin",
                        "-x", "tests"], cwd=os.path.abspath(LABREA_SRC), env=env, capture_output=True, text=True, timeout=900)
    if not os.path.exists(out):
        # the recording plugin could not hook in (internals renamed?) or the suite did not run: this stage is skipped
        print("NOTE: no request trace from the repository's test session (stage skipped): %s" % (r.stdout[-300:] + r.stderr[-300:]),
              file=sys.stderr)
        return 0, 0, 0, 0
    traces = [json.loads(l) for l in open(out)]
    nev = sum(len(t["ev"]) for t in traces)
    path = sc.path("traces", "suite.ndjson")
    with open(path, "w") as f:
        for t in traces:
            f.write(json.dumps(t) + "\n")
    from . import tlc

    res = tlc.run_tlc("Trace_Requests", "Trace_Requests.cfg", workers=1, scratch=sc, collect=("REJECTED ", "VALIDATED "),
                      env={"TRACE_FILE": path})
    if not res.ok:
        raise MachineryError("TLC failed on the suite trace:\n%s" % (res.error or res.raw_tail))
    for p in res.out.get("REJECTED ", []):
        d = json.loads(p)
        ev = traces[d["tid"] - 1]["ev"]
        line = d["line"]
        test = next((e["k"] for e in reversed(ev[:line]) if e["e"] == "test"), "?")
        rep.violation({"suite_event": ev[line - 1] if line - 1 < len(ev) else None, "test": test},
                      {"kind": "suite-trace", "test": test, "rejected_at": line, "events": ev[max(0, line - 8): line]})
    return res.distinct, res.generated, nev, nev
