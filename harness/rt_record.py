"""code -> spec: random drivers beyond TLC's exhaustive bounds record what labrea.runtime
really does; TLC validates the recorded traces against spec/Trace_Runtime.tla.

The driver keeps only the bookkeeping needed to issue *well-formed* operations (how many
runtime objects exist, how deep each thread is nested); it predicts nothing about handlers.
"""
import json
import random

from . import rt_exec, tlc
from .common import MachineryError

TYPES = ["A", "B", "C", "D"]
INIT_DEFAULTS = ["A"]
LATE = ["B", "D"]


def record_one(rt, rng, threads, length, max_rt=12, max_depth=8):
    w = rt_exec.World(rt, TYPES, INIT_DEFAULTS, threads)
    events = []
    nrt = 0
    depth = {t: [] for t in threads}
    registered = set()
    try:
        for _ in range(length):
            t = rng.choice(threads)
            choices = ["Probe", "Probe"]
            if nrt < max_rt:
                choices += ["Create", "HandleCurrent", "HandleCurrent"]
                if nrt:
                    choices += ["Derive", "Derive"]
            if nrt and len(depth[t]) < max_depth:
                choices += ["Enter"] * 4
            if depth[t]:
                choices += ["Exit"] * 3
            if len(registered) < len(LATE):
                choices += ["RegisterDefault"]
            if len(threads) > 1 and not depth[t]:
                choices += ["Inherit"]
            kind = rng.choice(choices)
            a = {"a": kind, "t": t}
            if kind in ("Create", "Derive", "HandleCurrent"):
                k = rng.choice([0, 1, 1, 1, 2, 3]) if kind == "Create" else rng.choice([1, 1, 2, 3])
                a["tys"] = sorted(rng.sample(TYPES, k))
                a["r"] = nrt + 1
                if kind == "Derive":
                    a["src"] = rng.randint(1, nrt)
            elif kind == "Enter":
                # re-entering an active runtime and reusing one after exit are both likely
                a["r"] = rng.choice(depth[t]) if depth[t] and rng.random() < 0.3 else rng.randint(1, nrt)
            elif kind == "Exit":
                a["r"] = depth[t][-1]
                a["how"] = rng.choice(["normal", "exception"])
            elif kind == "RegisterDefault":
                a["ty"] = rng.choice([ty for ty in LATE if ty not in registered])
            elif kind == "Inherit":
                a["p"] = rng.choice([u for u in threads if u != t])
            status, val = w.do(a)
            if status == "HARNESS":
                raise MachineryError("recording driver failure: %r" % (val,))
            if status == "exc":
                # the real code raised where the API promises none: record it, TLC will reject
                a["exc"] = val
                events.append(a)
                break
            if kind in ("Create", "Derive", "HandleCurrent"):
                nrt += 1
            elif kind == "Enter":
                depth[t].append(a["r"])
            elif kind == "Exit":
                depth[t].pop()
            elif kind == "RegisterDefault":
                registered.add(a["ty"])
            elif kind == "Probe":
                val.pop("__current__", None)
                a["resx"] = val.pop("__x__", None) or {}
                a["res"] = val
            events.append(a)
        # close the trace with a probe in every thread
        for t in threads:
            status, val = w.probe_in(t)
            ev = {"a": "Probe", "t": t, "res": val}
            if isinstance(val, dict):
                val.pop("__current__", None)
                ev["resx"] = val.pop("__x__", None) or {}
            events.append(ev)
    finally:
        w.close()
    return events


def record_many(rt, seed, salt, n, threads, length):
    rng = random.Random("%s/rec/%s" % (seed, salt))
    return [record_one(rt, rng, threads, length) for _ in range(n)]


def validate(traces, scratch, cfg="Trace_Runtime.cfg", module="Trace_Runtime"):
    """Returns (validated, rejected) where rejected is a list of (index, line reached)."""
    path = scratch.path("traces", "rt-%d.ndjson" % len(traces))
    with open(path, "w") as f:
        for tr in traces:
            # an event carrying "exc" is not an action of the machine: rename it so that no
            # trace action matches and the trace is rejected at that line
            out = [dict(e, a="Raised:" + e["a"]) if "exc" in e else e for e in tr]
            f.write(json.dumps(out) + "\n")
    rejected = []
    res = tlc.run_tlc(module, cfg, workers=1, scratch=scratch, collect=("REJECTED ", "VALIDATED "),
                      env={"TRACE_FILE": path})
    for p in res.lines:
        d = json.loads(p)
        rejected.append((d["tid"] - 1, d["line"]))
    if res.violation:
        # an invariant of the machine failed while following a recorded trace: the spec
        # contradicts itself on that trace (machinery), not the code
        raise MachineryError("invariant violated during trace validation:\n" + res.violation)
    if not res.ok:
        raise MachineryError("TLC failed during trace validation:\n%s" % (res.error or res.raw_tail))
    m = res.out.get("VALIDATED ")
    if not m:
        raise MachineryError("trace validation produced no verdict line:\n" + res.raw_tail)
    nval = int(m[-1])
    if nval + len(rejected) != len(traces):
        raise MachineryError("trace validation verdicts do not add up")
    return nval, rejected, res
