"""Known findings (committed file, never written at run time) and the reporting protocol.

A violation is identified by a *signature*: the canonical form of its minimised
counterexample, computed by the check that found it.  An `open` entry of
known_findings.json suppresses exactly the violations whose signature it lists (they are
printed as KNOWN-FINDING lines); `fixed` entries suppress nothing.
"""
import hashlib
import json
import os

from .common import REPLAYS, VERIF, canon

PATH = os.path.join(VERIF, "known_findings.json")


def load():
    if not os.path.exists(PATH):
        return []
    with open(PATH) as f:
        return json.load(f).get("findings", [])


def open_signatures(prop):
    out = {}
    for e in load():
        if e.get("property") == prop and e.get("status") == "open":
            for s in e.get("signatures", []):
                out[canon(s)] = e
    return out


class Reporter:
    """Collects violations of one property during a run and prints the verdict lines."""

    def __init__(self, prop):
        self.prop = prop
        self.known = open_signatures(prop)
        self.violations = []  # (signature, replay doc)
        self.known_hits = {}  # finding id -> count
        self._seen = set()

    def violation(self, signature, replay_doc):
        key = canon(signature)
        if key in self.known:
            e = self.known[key]
            self.known_hits[e["id"]] = self.known_hits.get(e["id"], 0) + 1
            return False
        if key in self._seen:
            return True
        self._seen.add(key)
        self.violations.append((signature, replay_doc))
        return True

    def finish(self, max_report=5):
        """Print KNOWN-FINDING / VIOLATION lines; returns the exit code (0 or 1)."""
        for e in load():
            if e.get("property") == self.prop and e.get("status") == "open" \
                    and e["id"] in self.known_hits:
                print("KNOWN-FINDING: property=%s %s [%s, %d occurrence(s) in this run]" % (
                    self.prop, e["what"], e["id"], self.known_hits[e["id"]]))
        if not self.violations:
            return 0
        os.makedirs(REPLAYS, exist_ok=True)
        for sig, doc in self.violations[:max_report]:
            h = hashlib.sha1(canon(sig).encode()).hexdigest()[:12]
            path = os.path.join(REPLAYS, "%s-%s.json" % (self.prop, h))
            doc = dict(doc)
            doc["property"] = self.prop
            doc["signature"] = sig
            with open(path, "w") as f:
                json.dump(doc, f, indent=1, sort_keys=True)
            print("VIOLATION property=%s replay=%s" % (self.prop, path))
        if len(self.violations) > max_report:
            print("(%d further distinct violations of %s not written out)" % (
                len(self.violations) - max_report, self.prop))
        return 1
