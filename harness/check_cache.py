"""C17: an unreliable cache backend (spec/CacheImpl.tla) against labrea.cache.Cached.

spec -> code: every complete history of the TLC-exported micro-step graph (all assignments of
faults to the first N backend calls x all key sequences) is replayed: a scripted Cache subclass
applies the path's fault at each backend call and logs it; the logged call sequence, every
returned value and the number of body runs must equal the path's.
code -> spec: longer seeded random histories with random faults are recorded from the real
code and validated by TLC against Trace_Cache.tla.
"""
import json
import multiprocessing as mp
import random

from . import evidence, graph, tlc
from .common import NPROC, SEED, MachineryError, Scratch, Timer, canon, import_labrea
from .findings import Reporter

_G = None


def make_world(lab, script):
    """A dataset `ds(x=Option('X'))` (body returns 'v<x>') using a scripted backend."""
    from labrea.cache import Cache, CacheGetFailure

    log = []
    runs = []

    class ScriptedCache(Cache):
        def __init__(self):
            self.data = {}
            from labrea.cache import MemoryCache

            self.inner = MemoryCache()

        def _fault(self, kind):
            f = script.pop(0) if script else "behave"
            return f

        def exists(self, evaluatable, options):
            f = self._fault("exists")
            k = options.get("X", 0)
            r = False if f == "miss" else True if f == "lie" else (k in self.data)
            log.append({"a": "Exists", "k": k, "f": f, "r": "True" if r else "False"})
            return r

        def get(self, evaluatable, options):
            f = self._fault("get")
            k = options.get("X", 0)
            if f == "behave" and k in self.data:
                log.append({"a": "Get", "k": k, "f": f, "r": self.data[k]})
                return self.data[k]
            log.append({"a": "Get", "k": k, "f": f, "r": "CacheGetFailure"})
            # the contract: a failed retrieval is reported as CacheGetFailure -- bare, or chained to whatever
            # went wrong underneath (a lookup miss, an I/O error, a truncated pickle)
            import pickle
            cause = [None, KeyError(k), OSError("read error"), pickle.UnpicklingError("truncated"), EOFError()][len(log) % 5]
            # ... and it may name the store that actually failed (a layered backend), not the front object
            named = self if len(log) % 2 else self.inner
            if cause is None:
                raise CacheGetFailure(evaluatable, options, named)
            raise CacheGetFailure(evaluatable, options, named) from cause

        def set(self, evaluatable, options, value):
            f = self._fault("set")
            k = options.get("X", 0)
            if f != "drop":
                self.data[k] = value
            log.append({"a": "Set", "k": k, "f": f, "r": "None"})

    def body(x=lab.Option("X")):
        runs.append(x)
        log.append({"a": "Compute", "k": x})
        return "v%d" % x

    ds = lab.dataset(body, cache=ScriptedCache())
    ds.via = {"direct": ds, "coalesce": lab.Coalesce(ds, lab.Value("FALLBACK"))}
    return ds, log, runs


def replay(lab, labels):
    """labels: the micro-steps of a complete history.  Returns None or a mismatch description."""
    faults = [a["f"] for a in labels if a["a"] in ("Exists", "Get", "Set")]
    ds, log, runs = make_world(lab, list(faults))
    i = 0
    while i < len(labels):
        a = labels[i]
        if a["a"] != "Start":
            return {"harness": "path does not start an evaluation at %d" % i}
        j = i + 1
        while labels[j]["a"] != "Return":
            j += 1
        expected_steps = [{k: v for k, v in x.items()} for x in labels[i + 1:j]]
        ret = labels[j]
        n0 = len(log)
        try:
            got = ds.via[a.get("via", "direct")]({"X": a["k"]} if a["k"] else {})
        except Exception as e:  # noqa
            return {"step": i, "what": "evaluate raised %s: %s" % (type(e).__name__, e), "expected": ret["v"]}
        steps = log[n0:]
        if got != ret["v"]:
            return {"step": i, "what": "wrong value", "got": got, "expected": ret["v"]}
        if len([x for x in steps if x["a"] == "Compute"]) > 1:
            return {"step": i, "what": "the body ran more than once in one evaluation", "got": steps}
        if steps != expected_steps or len(runs) != ret["runs"]:
            # the code made different backend calls than the micro-step model (a refactoring?): the
            # property (value, at most one recomputation) was decided above; from here on the path's
            # fault positions no longer line up with the model, so the rest of it is not replayed
            return {"divergence": True, "step": i, "got": steps, "expected": expected_steps}
        i = j + 1
    return None


def _task(paths):
    lab = import_labrea()
    bad = []
    nt = 0
    div = 0
    for labels in paths:
        if any(a.get("f", "behave") != "behave" for a in labels):
            nt += 1
        m = replay(lab, labels)
        if m is not None:
            if "harness" in m:
                raise MachineryError(m["harness"])
            if m.get("divergence"):
                div += 1
                continue
            if len(bad) < 50:
                bad.append((labels, m))
    return len(paths), nt, bad, div


def record_random(lab, rng, nevals, nfaulty):
    """A random history on the real code with random faults on the first nfaulty calls."""
    script = []
    for _ in range(nfaulty):
        script.append(rng.choice(["behave", "behave", "miss", "lie", "drop"]))
    # a fault that does not apply to the call kind it meets is normalised by the backend to what
    # it did; the log records the fault actually applied
    ds, log, runs = make_world(lab, script)
    events = []
    for _ in range(nevals):
        via = rng.choice(["direct", "direct", "coalesce"])
        k = rng.choice([1, 2, 0] if via == "coalesce" else [1, 2])
        events.append({"a": "Start", "k": k, "via": via})
        n0 = len(log)
        try:
            v = ds.via[via]({"X": k} if k else {})
            events.extend(log[n0:])
            events.append({"a": "Return", "k": k, "v": v if isinstance(v, str) else "PY:" + repr(v), "runs": len(runs)})
        except Exception as e:  # noqa
            events.extend(log[n0:])
            events.append({"a": "Raised", "k": k, "v": type(e).__name__, "runs": len(runs)})
            break
    return events


def normalise_faults(events):
    """The scripted backend applies whatever fault the script holds; the model only has the faults
    that are meaningful for each call kind.  Map the others to what they amounted to."""
    out = []
    for e in events:
        e = dict(e)
        if e["a"] == "Exists" and e["f"] == "drop":
            e["f"] = "behave"
        if e["a"] == "Get" and e["f"] in ("lie", "drop"):
            e["f"] = "miss"  # the scripted get fails for every fault other than "behave"
        if e["a"] == "Set" and e["f"] in ("miss", "lie"):
            e["f"] = "behave"
        out.append(e)
    return out


def main(tier):
    global _G
    prop = "C17"
    timer = Timer()
    rep = Reporter(prop)
    quick = tier == "quick"
    name = "quick" if quick else "thorough"
    with Scratch() as sc:
        mc = tlc.require_clean(tlc.run_tlc("MC_Cache", "MC_Cache_%s.cfg" % name, workers=NPROC, scratch=sc), "MC_Cache")
        rel = tlc.require_clean(tlc.run_tlc("MC_Cache", "MC_Cache_reliable.cfg", workers=NPROC, scratch=sc), "MC_Cache reliable")
        g = graph.Graph()
        tlc.require_clean(tlc.run_tlc("MC_Cache", "Gen_Cache_%s.cfg" % name, workers=1, scratch=sc, collect="EDGE ",
                                      line_cb=g.add_edge_payload), "Gen_Cache")
        if g.nstates() != mc.distinct:
            raise MachineryError("exported graph and model-checked graph differ")
        _G = g
        paths = list(g.maximal_paths(limit=None if not quick else 400000))
        kinds = {}
        for p in paths[:2000]:
            for a in p:
                kinds[a["a"] + ":" + a.get("f", "")] = 1
        for need in ("Exists:miss", "Exists:lie", "Get:miss", "Set:drop", "Compute:", "Return:"):
            if need not in kinds:
                raise MachineryError("vacuous model: no path contains %s" % need)
        chunks = [paths[i:i + 2000] for i in range(0, len(paths), 2000)]
        ctx = mp.get_context("fork")
        total = nontriv = diverged = 0
        bad = []
        with ctx.Pool(NPROC) as pool:
            for n, nt, b, dv in pool.imap_unordered(_task, chunks):
                total += n
                nontriv += nt
                diverged += dv
                bad.extend(b)
        bad.sort(key=lambda lm: (len(lm[0]), canon(lm[0])))
        for labels, m in bad:
            sig = {"faults": [(a["a"], a.get("f")) for a in labels if a["a"] in ("Start", "Exists", "Get", "Set")][:12],
                   "what": m.get("what")}
            rep.violation(sig, {"kind": "cache", "labels": labels, "mismatch": m})
        # code -> spec
        lab = import_labrea()
        rng = random.Random("%s/c17" % SEED)
        ntr = 3000 if quick else 30000
        traces = [normalise_faults(record_random(lab, rng, rng.randint(3, 8), rng.randint(0, 12))) for _ in range(ntr)]
        from . import rt_record

        nval, rejected, tres = rt_record.validate(traces, sc, cfg="Trace_Cache.cfg", module="Trace_Cache")
        unexplained = 0
        for idx, line in rejected:
            tr = traces[idx]
            # a rejected trace violates C17 only if a returned value is wrong / an evaluation raised / a body
            # ran twice in one evaluation; otherwise the code merely makes other backend calls than the model
            wrong = [e for e in tr if e["a"] == "Raised" or (e["a"] == "Return" and e["v"] != ("v%s" % e["k"] if e["k"] else "FALLBACK"))]
            twice = False
            comp = 0
            for e in tr:
                comp = 0 if e["a"] == "Start" else comp + (e["a"] == "Compute")
                twice = twice or comp > 1
            if wrong or twice:
                rep.violation({"trace": [(e["a"], e.get("f")) for e in tr[:line]][-12:], "last": (wrong or [None])[0]},
                              {"kind": "cache-trace", "trace": tr, "rejected_at": line})
            else:
                unexplained += 1
        if diverged or unexplained:
            print("NOTE: %d replayed histories and %d recorded traces make other backend calls than spec/CacheImpl.tla "
                  "describes (values correct): the micro-step model no longer mirrors Cached.evaluate" % (diverged, unexplained),
                  file=__import__("sys").stderr)
        code = rep.finish()
        sample = paths[len(paths) // 2]
        evidence.write(prop, tier, "model_checking", {
            "states": mc.distinct + rel.distinct + tres.distinct,
            "transitions": mc.generated + rel.generated + tres.generated,
            "traces_validated_against_impl": total + len(traces),
            "evaluations": total + len(traces),
            "distinct_nontrivial": nontriv,
            "rule": "every complete history of the TLC-exported CacheImpl graph (Gen_Cache_%s.cfg: all assignments of "
                    "{behave, miss, lie-exists, drop/fail-get} to the first N backend calls x all key sequences) replayed "
                    "on a real dataset with a scripted Cache subclass: backend call sequence, every returned value and the "
                    "body-run count must equal the path's; plus %d seeded random longer histories recorded from the real "
                    "code and validated by TLC (Trace_Cache); non-trivial = at least one faulty backend call" % (name, len(traces)),
            "samples": [sample],
            "exhaustive": True,
            "paths": len(paths), "histories_diverging_from_model": diverged,
            "tlc": {"invariants": ["FaultyStillCorrect", "AtMostRecompute"], "properties": ["ReliableMemoises"]},
            "known_finding_hits": rep.known_hits,
        }, timer.s(), violations=len(rep.violations), assumptions=[
            "the backend respects the Cache contract: get raises CacheGetFailure only, values it returns are those stored",
            "one cached dataset, keys from a two-element option universe",
        ])
        return code


def replay_file(doc):
    lab = import_labrea()
    if doc["kind"] == "cache":
        m = replay(lab, doc["labels"])
        if m is None:
            print("replay: the recorded history now conforms")
            return 0
        print("replay: %s" % canon(m))
        print("VIOLATION property=C17 replay=%s" % doc.get("_path"))
        return 1
    from . import rt_record

    with Scratch() as sc:
        nval, rejected, _ = rt_record.validate([doc["trace"]], sc, cfg="Trace_Cache.cfg", module="Trace_Cache")
    print("replay: recorded trace %s by Trace_Cache (re-recording needs the random driver; see evidence)" % (
        "rejected" if rejected else "accepted"))
    return 1 if rejected else 0
