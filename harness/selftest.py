"""bin/selftest: demonstrates that the specifications are bound to the code.

For each trace specification an accepted trace recorded from the real code is corrupted in one
field and, separately, loses one event: TLC must reject both.  For the replay direction one
expected datum of a TLC-generated case is flipped: the judge must report a mismatch.
Exit 0 iff every corruption is detected (and every uncorrupted input accepted)."""
import copy
import json
import random
import sys

from . import check_cache, rt_record, verdicts
from .common import Scratch, import_labrea


def main():
    lab = import_labrea()
    import labrea.runtime as rt

    ok = True

    def expect(name, cond):
        nonlocal ok
        print("%-70s %s" % (name, "ok" if cond else "FAILED"))
        ok = ok and cond

    with Scratch() as sc:
        # -- Trace_Runtime ---------------------------------------------------------------------
        good = rt_record.record_many(rt, 7, "selftest", 20, ["t1", "t2"], 25)
        n, rej, _ = rt_record.validate(good, sc)
        expect("Trace_Runtime accepts 20 recorded executions", n == 20 and not rej)
        bad1 = copy.deepcopy(good[0])
        i = max(k for k, e in enumerate(bad1) if e["a"] == "Probe")
        bad1[i]["res"]["A"] = "h9:A"
        bad2 = copy.deepcopy(good[1])
        j = next((k for k, e in enumerate(bad2) if e["a"] == "Enter"), None)
        if j is None:
            j = 0
        del bad2[j]
        n, rej, _ = rt_record.validate([bad1, good[2], bad2], sc)
        expect("Trace_Runtime rejects a corrupted probe result", any(r[0] == 0 for r in rej))
        expect("Trace_Runtime rejects a trace with an Enter removed (or accepts only if it had none)",
               any(r[0] == 2 for r in rej) or not any(e["a"] == "Enter" for e in good[1]))
        expect("Trace_Runtime still accepts the untouched trace", not any(r[0] == 1 for r in rej))
        # -- Trace_Cache -----------------------------------------------------------------------
        rng = random.Random(3)
        tr = [check_cache.normalise_faults(check_cache.record_random(lab, rng, 4, 6)) for _ in range(10)]
        n, rej, _ = rt_record.validate(tr, sc, cfg="Trace_Cache.cfg", module="Trace_Cache")
        expect("Trace_Cache accepts 10 recorded histories", n == 10 and not rej)
        bad = copy.deepcopy(tr[0])
        k = max(i for i, e in enumerate(bad) if e["a"] == "Return")
        bad[k]["v"] = "v9"
        n, rej, _ = rt_record.validate([bad], sc, cfg="Trace_Cache.cfg", module="Trace_Cache")
        expect("Trace_Cache rejects a corrupted returned value", len(rej) == 1)
    # -- replay direction: a hand-written case with the specification's data ------------------------
    case = {"nodes": [{"k": "opt", "p": ["A"], "d": 0, "dom": 0}], "tabs": [],
            "a": {"a": "Observe", "n": 1, "o": {"t": "d", "d": {"A": {"t": "i", "i": 1}}},
                  "eval": {"ok": True, "v": {"t": "i", "i": 1}}, "validate": {"ok": True},
                  "keys": {"ok": True, "ks": [["A"]]}, "explain": {"ok": True, "ks": [["A"]]},
                  "mentions": [["A"]], "reads": [["A"]], "raises": [],
                  "set0": {"t": "d", "d": {"A": {"t": "i", "i": 0}}}}}
    r = verdicts.judge_c04(case, lab)
    expect("replay: Option('A')({'A': 1}) conforms to the specification's case", not r.violations)
    flipped = copy.deepcopy(case)
    flipped["a"]["eval"]["v"]["i"] = 2
    r = verdicts.judge_c04(flipped, lab)
    expect("replay: a flipped expected value is reported as a mismatch", bool(r.violations))
    return 0 if ok else 1


if __name__ == "__main__":
    sys.exit(main())
