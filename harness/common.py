"""Shared plumbing for the verification harness (stdlib only)."""
import json
import os
import shutil
import sys
import tempfile
import time

VERIF = os.path.dirname(os.path.dirname(os.path.abspath(__file__)))
SPEC = os.path.join(VERIF, "spec")
EVIDENCE = os.environ.get("VERIF_EVIDENCE_DIR") or os.path.join(VERIF, "evidence")
REPLAYS = os.environ.get("VERIF_REPLAY_DIR") or os.path.join(VERIF, "replays")
LABREA_SRC = os.environ.get("LABREA_SRC", "/repo")

SEED = int(os.environ.get("VERIF_SEED", "0") or 0)
NPROC = int(os.environ.get("VERIF_NPROC", str(os.cpu_count() or 4)))


def tier(default="quick"):
    t = os.environ.get("VERIF_TIER", default)
    return t if t in ("quick", "thorough") else default


def import_labrea():
    """Import labrea from LABREA_SRC (the current working tree), never from elsewhere."""
    src = os.path.abspath(LABREA_SRC)
    if sys.path[0] != src:
        sys.path.insert(0, src)
    import labrea  # noqa

    got = os.path.dirname(os.path.dirname(os.path.abspath(labrea.__file__)))
    if got != src:
        raise RuntimeError(f"labrea imported from {got}, expected {src}")
    return labrea


class Scratch:
    """One scratch directory per run, removed at exit (nothing is kept under /tmp)."""

    def __init__(self, prefix="labrea-verif-"):
        self.dir = tempfile.mkdtemp(prefix=prefix)

    def path(self, *parts):
        p = os.path.join(self.dir, *parts)
        os.makedirs(os.path.dirname(p), exist_ok=True)
        return p

    def close(self):
        shutil.rmtree(self.dir, ignore_errors=True)

    def __enter__(self):
        return self

    def __exit__(self, *a):
        self.close()


class Timer:
    def __init__(self):
        self.t0 = time.time()

    def s(self):
        return round(time.time() - self.t0, 2)


def canon(x):
    return json.dumps(x, sort_keys=True, separators=(",", ":"))


class MachineryError(Exception):
    """The verification machinery itself failed (exit code 2); never a VIOLATION."""
