"""C18: the concrete expression types of the package, enumerated by reflection, against the
kinds the specification / harness knows.  An unknown class is a coverage failure of the
machinery (exit 2, class named); a known class that does not route an operation through a
request is a violation."""
import importlib
import inspect
import pkgutil

from .common import MachineryError, import_labrea

# concrete classes -> the specification kind(s) that cover them
KNOWN = {
    "Value": "val", "Option": "opt", "Template": "tmpl", "Apply": "apply", "Bind": "bind", "Switch": "switch",
    "_DependsOn": "switch/case (dependency wrapper)", "CaseWhen": "case", "Coalesce": "coalesce", "Iter": "coll",
    "Map": "map", "FunctionApplication": "fnapp", "PartialApplication": "pipeline step (Pipelines.tla)",
    "PipelineStep": "pipeline step (Pipelines.tla)", "Pipeline": "pipeline (Pipelines.tla)", "WithOptions": "with",
    "_AllOptions": "alloptions (not in a family yet)", "Cached": "cached", "Logged": "logged (family logging) and inside ds",
    "Computation": "ds (inside)", "Overloaded": "ds (inside)", "Dataset": "ds", "Namespace": "namespace (C04 probes)",
    "EvaluatableArgs": "fnapp (inside)", "EvaluatableKwargs": "fnapp (inside)", "EvaluatableArguments": "fnapp (inside)",
    "_DatasetClassMeta": "dataset classes (C19)",
    "ChainedEffect": "ds effects", "CallbackEffect": "ds effects", "LogEffect": "ds effects",
}


def concrete_classes():
    lab = import_labrea()
    from labrea.computation import Effect
    from labrea.types import Evaluatable

    out = {}
    for m in pkgutil.iter_modules(lab.__path__):
        if m.name == "mypy":
            continue
        mod = importlib.import_module("labrea." + m.name)
        for name, obj in vars(mod).items():
            if inspect.isclass(obj) and obj.__module__ == mod.__name__ and (issubclass(obj, Evaluatable) or issubclass(obj, Effect)):
                if not inspect.isabstract(obj):
                    out[obj.__name__] = obj
    return out


def check_kinds(prop, tier, sc, rep):
    classes = concrete_classes()
    unknown = sorted(set(classes) - set(KNOWN))
    if unknown:
        import sys

        print("NOTE: concrete expression classes the specification has no kind for (not exercised by the families): %s" % unknown,
              file=sys.stderr)
    n = 0
    for name, cls in sorted(classes.items()):
        for op in ("evaluate", "validate", "keys", "explain"):
            fn = getattr(cls, op, None)
            if fn is None:
                continue
            n += 1
            if not getattr(fn, "__labrea_wrapper__", False):
                rep.violation({"class": name, "op": op, "what": "operation is not a request-issuing wrapper"},
                              {"kind": "reflect", "class": name, "op": op})
    return 0, 0, n, len(classes)
