"""C15: running small multi-threaded scenarios on the real code under the deterministic
scheduler, recording call/ret histories for spec/Trace_Threads.tla.

A scenario is {"setup": [ops], "threads": {"t1": [ops], ...}}; ops use the vocabulary of
spec/Threads.tla.  Runtime objects are referred to by harness names ("R1", "t1.h1").
"""
import random

from . import sched
from .common import LABREA_SRC

TYPES = ["A", "B", "C"]
INIT_DEFAULTS = ["A"]


class _Leave(Exception):
    pass


def _tag_handler(tag):
    def handler(request, _tag=tag):
        return _tag

    return handler


class World:
    def __init__(self, labrea):
        import labrea.runtime as rt
        from labrea import Option, dataset

        self.rt = rt
        self.cls = {ty: type("Req" + ty, (rt.Request,), {"options": {}}) for ty in TYPES}
        for ty in INIT_DEFAULTS:
            self.cls[ty].handle(_tag_handler("d:" + ty))
        self.R = {}
        self.nrt = 0
        self.runs = []

        @dataset.nocache(dispatch=Option("K"))
        def shared():
            return "default"

        self.shared = shared
        self.impl = {}
        for key in ("a", "b", "c"):
            def body(_k=key):
                return _k
            body.__name__ = "impl_" + key
            self.impl[key] = dataset(body)

        runs = self.runs

        @dataset
        def cached_ds(x=Option("X")):
            runs.append(x)
            return x

        self.cached_ds = cached_ds
        self.thread_objs = {}


class Runner:
    """Executes one thread's op list; logs call/ret through the scheduler."""

    def __init__(self, world, s, name, ops):
        self.w = world
        self.s = s
        self.name = name
        self.ops = ops

    def call(self, op):
        self.s.log("call", dict(op, e="call", t=self.name))

    def ret(self, op, res, **extra):
        self.s.log("ret", dict({"e": "ret", "t": self.name, "k": op["k"], "res": res}, **extra))

    def __call__(self):
        i = self.run(0, 0)
        return i

    def run(self, i, depth):
        """Runs ops from index i; returns the index after the Exit that closed this level
        (or len(ops)); the Exit's `how` is delivered by raising _Leave for 'exception'."""
        w = self.w
        ops = self.ops
        while i < len(ops):
            op = ops[i]
            k = op["k"]
            if k == "Enter":
                self.call(op)
                state = {"next": None, "exit_op": None, "entered": False}
                try:
                    with w.R[op["rn"]]:
                        state["entered"] = True
                        self.ret(op, "ok")
                        j = self.run(i + 1, depth + 1)
                        state["next"] = j
                        ex = ops[j - 1] if j - 1 < len(ops) and ops[j - 1]["k"] == "Exit" else None
                        state["exit_op"] = ex
                        if ex is not None and ex["how"] == "exception":
                            raise _Leave()
                except _Leave:
                    pass
                except sched.Deadlock:
                    raise
                except BaseException as e:
                    if not state["entered"]:
                        self.ret(op, "EXC:" + type(e).__name__)
                        return len(ops)
                    if state["exit_op"] is not None:
                        self.ret(state["exit_op"], "EXC:" + type(e).__name__)
                    return len(ops)
                if state["exit_op"] is not None:
                    self.ret(state["exit_op"], "ok")
                i = state["next"]
                continue
            if k == "Exit":
                self.call(op)
                return i + 1
            self.call(op)
            try:
                res, extra = self.step(op)
            except sched.Deadlock:
                raise
            except BaseException as e:
                res, extra = "EXC:" + type(e).__name__, {}
                if k in ("Create", "Derive", "HandleCurrent"):
                    extra = {"name": op["name"]}
            self.ret(op, res, **extra)
            i += 1
        return i

    def step(self, op):
        w = self.w
        k = op["k"]
        if k in ("Create", "Derive", "HandleCurrent"):
            handlers = {w.cls[ty]: _tag_handler("%s:%s" % (op["name"], ty)) for ty in sorted(op["tys"])}
            if k == "Create":
                r = w.rt.Runtime(handlers) if handlers else w.rt.Runtime()
            else:
                src = w.R[op["srcn"]].handle if k == "Derive" else w.rt.handle
                if len(handlers) == 1:
                    ((c, h),) = handlers.items()
                    r = src(c, h)
                else:
                    r = src(handlers)
            w.R[op["name"]] = r
            return "ok", {"name": op["name"]}
        if k == "Probe":
            out = {}
            for ty in TYPES:
                try:
                    tag = w.cls[ty]().run()
                    name, _, tty = tag.rpartition(":")
                    if name == "d":
                        out[ty] = {"kind": "d", "name": "-"}
                    else:
                        out[ty] = {"kind": "h", "name": name, "ty": tty}
                except TypeError:
                    out[ty] = {"kind": "TypeError", "name": "-"}
                except sched.Deadlock:
                    raise
                except BaseException as e:
                    out[ty] = {"kind": "EXC:" + type(e).__name__, "name": "-"}
            return out, {}
        if k == "Inherit":
            w.rt.inherit(self.s.ts[op["p"]].thread)
            return "ok", {}
        if k == "RegisterDefault":
            w.cls[op["ty"]].handle(_tag_handler("d:" + op["ty"]))
            return "ok", {}
        if k == "Register":
            w.shared.register(op["key"], w.impl[op["key"]])
            return "ok", {}
        if k == "Lookup":
            return w.shared({"K": op["key"]}), {}
        if k == "EvalCached":
            return w.cached_ds({"X": op["val"]}), {}
        raise ValueError(k)


def run_scenario(labrea, scenario, schedule, granularity, order=None):
    """Returns (trace events, per-thread step counts, deadlock flag, fired preemptions)."""
    w = World(labrea)
    s = sched.Scheduler(LABREA_SRC + "/labrea", granularity, schedule, order=list(order) if order else None)
    names = sorted(scenario["threads"])
    # setup (creation of the shared runtime objects) runs before the threads start; it is
    # logged as operations of t1 that complete before any other call
    setup = Runner(w, s, "t1", list(scenario.get("setup", [])))
    setup.run(0, 0)
    for n in (order or names):
        s.spawn(n, Runner(w, s, n, list(scenario["threads"][n])))
    out = s.run()
    if s.stalled:
        from .common import MachineryError
        raise MachineryError("scheduler stalled in scenario %r: a thread blocks on a primitive that is not a cooperative "
                             "Lock/RLock (no verdict possible)" % (scenario.get("name"),))
    events = [p for (_, _, p) in s.events]
    run_scenario.last_hot = {n: list(v) for n, v in s.hot_steps.items()}
    steps = {n: out[n]["steps"] for n in out}
    errors = {n: out[n]["error"] for n in out if out[n]["error"]}
    return events, steps, s.deadlock, list(s.fired), errors


# -- translating harness names in traces --------------------------------------------------
def rename_handlers(events):
    """Handler tags returned by probes are '<harness name>:<type>'.  The specification's tags
    are 'h<id>:<type>' with the id allocated at linearisation; the trace keeps harness names
    and Trace_Threads compares through `alias`.  To keep the trace spec simple the probe
    results are left as harness-name tags and the spec-side tag is rebuilt there."""
    return events


# -- scenario library ---------------------------------------------------------------------
def library():
    S = []

    def sc(name, setup, **threads):
        S.append({"name": name, "setup": setup, "threads": threads})

    P = {"k": "Probe"}

    def ent(rn):
        return {"k": "Enter", "rn": rn}

    def ex(how="normal"):
        return {"k": "Exit", "how": how}

    def create(name, tys):
        return {"k": "Create", "name": name, "tys": tys}

    def hc(name, tys):
        return {"k": "HandleCurrent", "name": name, "tys": tys}

    def reg(key):
        return {"k": "Register", "key": key}

    def look(key):
        return {"k": "Lookup", "key": key}

    def ev(val):
        return {"k": "EvalCached", "val": val}

    sc("register-register", [], t1=[reg("a"), look("a"), look("b")], t2=[reg("b"), look("a"), look("b")])
    sc("register-3", [], t1=[reg("a")], t2=[reg("b")], t3=[reg("c"), look("a")])
    sc("register-during-lookup", [], t1=[reg("a"), reg("b")], t2=[look("a"), look("b"), look("a")])
    sc("shared-runtime-enter-exit", [create("R1", ["C"])],
       t1=[ent("R1"), P, ex(), P], t2=[P, ent("R1"), P, ex("exception"), P])
    sc("shared-runtime-nested", [create("R1", ["C"]), create("R2", ["A"])],
       t1=[ent("R1"), ent("R2"), P, ex(), P, ex(), P], t2=[ent("R2"), ent("R1"), P, ex(), ex(), P])
    sc("reenter-shared", [create("R1", ["A", "C"])],
       t1=[ent("R1"), ent("R1"), ex(), P, ex(), P], t2=[ent("R1"), P, ex(), P])
    sc("handle-in-threads", [],
       t1=[hc("t1.h1", ["C"]), ent("t1.h1"), P, ex(), P],
       t2=[hc("t2.h1", ["A"]), ent("t2.h1"), P, ex("exception"), P])
    sc("inherit-snapshot", [create("R1", ["C"])],
       t1=[ent("R1"), P, ex(), P], t2=[{"k": "Inherit", "p": "t1"}, P, ent("R1"), ex(), P])
    sc("inherit-then-nest", [create("R1", ["C"]), create("R2", ["B"])],
       t1=[ent("R1"), ent("R2"), ex(), ex(), P],
       t2=[{"k": "Inherit", "p": "t1"}, ent("R2"), P, ex(), P])
    sc("late-default-race", [create("R1", ["C"])],
       t1=[{"k": "RegisterDefault", "ty": "B"}, P], t2=[ent("R1"), P, ex(), P])
    sc("cached-different-options", [], t1=[ev("x1"), ev("x1")], t2=[ev("x2"), ev("x1")])
    sc("cached-equal-options", [], t1=[ev("x1")], t2=[ev("x1"), ev("x2")])
    sc("cached-3", [], t1=[ev("x1")], t2=[ev("x2")], t3=[ev("x3"), ev("x1")])
    sc("register-during-evaluate", [], t1=[reg("a"), ev("x1")], t2=[look("a"), ev("x2"), look("a")])
    return S


def random_scenario(rng, idx):
    nthreads = rng.choice([2, 2, 3])
    names = ["t1", "t2", "t3"][:nthreads]
    setup = [{"k": "Create", "name": "R1", "tys": sorted(rng.sample(TYPES, rng.choice([1, 2])))},
             {"k": "Create", "name": "R2", "tys": sorted(rng.sample(TYPES, 1))}]
    threads = {}
    for n in names:
        ops = []
        depth = 0
        inherited = False
        for _ in range(rng.randint(2, 5)):
            ch = ["Probe", "Register", "Lookup", "EvalCached"]
            if depth < 2:
                ch += ["Enter", "Enter"]
            if depth:
                ch += ["Exit", "Exit"]
            if depth == 0 and not inherited and n != "t1":
                ch += ["Inherit"]
            k = rng.choice(ch)
            if k == "Enter":
                ops.append({"k": k, "rn": rng.choice(["R1", "R2"])})
                depth += 1
            elif k == "Exit":
                ops.append({"k": k, "how": rng.choice(["normal", "exception"])})
                depth -= 1
            elif k == "Inherit":
                ops.append({"k": k, "p": "t1"})
                inherited = True
            elif k == "Register":
                ops.append({"k": k, "key": rng.choice(["a", "b", "c"])})
            elif k == "Lookup":
                ops.append({"k": k, "key": rng.choice(["a", "b", "c"])})
            elif k == "EvalCached":
                ops.append({"k": k, "val": rng.choice(["x1", "x2", "x3"])})
            else:
                ops.append({"k": "Probe"})
        while depth:
            ops.append({"k": "Exit", "how": "normal"})
            depth -= 1
        ops.append({"k": "Probe"})
        threads[n] = ops
    return {"name": "random-%d" % idx, "setup": setup, "threads": threads}
