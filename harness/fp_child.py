"""Child interpreter for C03: recomputes fingerprints under another PYTHONHASHSEED.
usage: python -m harness.fp_child <in.json> <out.json>"""
import json
import sys

from . import build
from .codec import dec
from .common import import_labrea


def main():
    lab = import_labrea()
    jobs = json.load(open(sys.argv[1]))
    out = []
    for j in jobs:
        try:
            g = build.Built(lab, j["nodes"], j["tabs"])
            out.append(g.root.fingerprint(dec(j["o"])).hex())
        except Exception as e:  # noqa
            out.append("ERR:" + type(e).__name__)
    json.dump(out, open(sys.argv[2], "w"))


if __name__ == "__main__":
    main()
