"""Deterministic scheduler for real Python threads (C15).

Exactly one *controlled* thread runs at a time (it holds the baton).  A controlled thread
offers to yield at every `opcode` (or `line`) event of frames whose code lives under the
labrea package, and whenever it would block on a lock.  A schedule says at which yield
points the running thread is preempted and which thread continues.

Locks: `threading.Lock` is replaced (before labrea is imported, see `install_coop_locks`)
by a cooperative lock, so every lock labrea creates -- whatever it is called -- reports
"blocked" to the scheduler instead of blocking the OS thread while another controlled
thread holds it.  For uncontrolled threads the cooperative lock behaves like a plain lock.

The harness's own synchronisation uses `_thread.allocate_lock` directly.
"""
import _thread
import os
import sys
import threading

_real_allocate = _thread.allocate_lock
_CURRENT = None  # the active Scheduler (one at a time per process)


class Deadlock(Exception):
    pass


class CoopLock:
    """Drop-in for threading.Lock()."""

    def __init__(self):
        self._l = _real_allocate()

    def acquire(self, blocking=True, timeout=-1):
        s = _CURRENT
        me = s.me() if s is not None else None
        if me is None:
            return self._l.acquire(blocking, timeout)
        while True:
            if self._l.acquire(False):
                return True
            if not blocking:
                return False
            s.blocked(me, self)

    def release(self):
        self._l.release()

    def locked(self):
        return self._l.locked()

    __enter__ = acquire

    def __exit__(self, *a):
        self.release()

    def _at_fork_reinit(self):
        self._l = _real_allocate()


class CoopRLock:
    """Drop-in for threading.RLock(): re-entrant, owned by a thread."""

    def __init__(self):
        self._l = _real_allocate()
        self._owner = None
        self._count = 0

    def acquire(self, blocking=True, timeout=-1):
        me_id = _thread.get_ident()
        if self._owner == me_id:
            self._count += 1
            return True
        s = _CURRENT
        me = s.me() if s is not None else None
        if me is None:
            ok = self._l.acquire(blocking, timeout)
        else:
            while True:
                ok = self._l.acquire(False)
                if ok or not blocking:
                    break
                s.blocked(me, self)
        if ok:
            self._owner = me_id
            self._count = 1
        return ok

    def release(self):
        if self._owner != _thread.get_ident():
            raise RuntimeError("cannot release un-acquired lock")
        self._count -= 1
        if self._count == 0:
            self._owner = None
            self._l.release()

    def locked(self):
        return self._l.locked()

    __enter__ = acquire

    def __exit__(self, *a):
        self.release()

    def _at_fork_reinit(self):
        self._l = _real_allocate()
        self._owner = None
        self._count = 0

    def _is_owned(self):
        return self._owner == _thread.get_ident()


class _ThreadingProxy:
    """Stands in for the `threading` module inside labrea's modules: Lock() / RLock() are cooperative."""

    Lock = CoopLock
    RLock = CoopRLock

    def __getattr__(self, name):
        return getattr(threading, name)


def install_coop_locks(import_labrea):
    """Make every lock labrea creates cooperative, whatever it is called:
    module-level locks (created while importing) and locks created later through the
    module's `threading` / `Lock` names."""
    import importlib
    import pkgutil

    real = threading.Lock
    real_r = threading.RLock
    rlock_type = type(real_r())
    threading.Lock = CoopLock
    threading.RLock = CoopRLock
    try:
        labrea = import_labrea()
        for m in pkgutil.iter_modules(labrea.__path__):
            if m.name != "mypy":
                importlib.import_module("labrea." + m.name)
    finally:
        threading.Lock = real
        threading.RLock = real_r
    proxy = _ThreadingProxy()
    lock_type = type(_real_allocate())
    for name, mod in list(sys.modules.items()):
        if name == "labrea" or name.startswith("labrea."):
            for attr, val in list(vars(mod).items()):
                if val is threading:
                    setattr(mod, attr, proxy)
                elif val is real:
                    setattr(mod, attr, CoopLock)
                elif val is real_r:
                    setattr(mod, attr, CoopRLock)
                elif isinstance(val, lock_type):
                    # labrea was imported before the patch (forked worker): swap the lock object
                    setattr(mod, attr, CoopLock())
                elif isinstance(val, rlock_type):
                    setattr(mod, attr, CoopRLock())
    return labrea


# code that reads or writes state shared between threads (overload tables, the memo store, the per-thread runtime
# table): preemption points there are all tried, the rest of the library is sampled
_HOT = {"overload.py": None, "cache.py": {"get", "set", "exists", "evaluate", "validate"},
        "runtime.py": {"__enter__", "__exit__", "inherit", "handle_by_default"}}


def _is_hot(code):
    names = _HOT.get(os.path.basename(code.co_filename), ())
    return names is None or code.co_name in names


class _T:
    def __init__(self, name, fn):
        self.name = name
        self.fn = fn
        self.gate = _real_allocate()
        self.gate.acquire()
        self.done = False
        self.blocked_on = None
        self.steps = 0
        self.result = None
        self.error = None
        self.thread = None


class Scheduler:
    """schedule: list of (thread name, local step index, switch to thread name)."""

    def __init__(self, labrea_dir, granularity="opcode", schedule=(), order=None, max_steps=200000):
        self.dir = os.path.abspath(labrea_dir) + os.sep
        self.gran = granularity
        self.schedule = {(t, i): to for t, i, to in schedule}
        self.ts = {}
        self.order = order or []
        self.events = []  # (kind, thread, payload) in global order
        self.main_gate = _real_allocate()
        self.main_gate.acquire()
        self.deadlock = False
        self.stalled = False
        self.total_steps = 0
        self.max_steps = max_steps
        self.fired = []  # preemptions that actually happened
        self.hot_steps = {}  # thread -> local step indices inside code that touches state shared between threads
        self._tls = threading.local()

    # -- construction ---------------------------------------------------------------
    def spawn(self, name, fn):
        self.ts[name] = _T(name, fn)
        if name not in self.order:
            self.order.append(name)

    def me(self):
        return getattr(self._tls, "t", None)

    def log(self, kind, payload=None):
        t = self.me()
        self.events.append((kind, t.name if t else None, payload))

    # -- instrumentation (sys.monitoring, CPython >= 3.12) ----------------------------
    def _instrument(self):
        import gc
        import types

        mon = sys.monitoring
        self._tool = mon.DEBUGGER_ID
        try:
            mon.use_tool_id(self._tool, "labrea-verif-sched")
        except ValueError:
            mon.free_tool_id(self._tool)
            mon.use_tool_id(self._tool, "labrea-verif-sched")
        ev = mon.events.INSTRUCTION if self.gran == "opcode" else mon.events.LINE
        self._ev = ev
        mon.register_callback(self._tool, ev, self._on_event)
        seen = set()

        def add(code):
            if id(code) in seen:
                return
            seen.add(id(code))
            if code.co_filename.startswith(self.dir):
                mon.set_local_events(self._tool, code, ev)
                self._codes.append(code)
            for c in code.co_consts:
                if isinstance(c, types.CodeType):
                    add(c)

        self._codes = []
        for o in gc.get_objects():
            if isinstance(o, types.FunctionType):
                add(o.__code__)

    def _uninstrument(self):
        mon = sys.monitoring
        for code in self._codes:
            mon.set_local_events(self._tool, code, 0)
        mon.register_callback(self._tool, self._ev, None)
        mon.free_tool_id(self._tool)

    def _on_event(self, code, where):
        self.yield_point(code)

    # -- scheduling -----------------------------------------------------------------
    def _runnable(self, exclude=None):
        return [self.ts[n] for n in self.order
                if not self.ts[n].done and self.ts[n].blocked_on is None and self.ts[n] is not exclude]

    def _switch(self, me, to):
        to.gate.release()
        me.gate.acquire()
        if self.deadlock:
            raise Deadlock()

    def yield_point(self, code=None):
        me = self.me()
        if me is None:
            return
        me.steps += 1
        self.total_steps += 1
        if code is not None and _is_hot(code):
            self.hot_steps.setdefault(me.name, []).append(me.steps)
        if self.total_steps > self.max_steps:
            self.deadlock = True
            raise Deadlock()
        to = self.schedule.get((me.name, me.steps))
        if to is not None:
            t = self.ts[to]
            if t is not me and not t.done:
                # a thread blocked on a lock may be woken: it retries and blocks again if needed
                t.blocked_on = None
                self.fired.append((me.name, me.steps, to))
                self._switch(me, t)

    def blocked(self, me, lock):
        me.blocked_on = lock
        cands = self._runnable(exclude=me)
        if not cands:
            # everybody else is blocked or done: try waking blocked ones whose lock is free
            for n in self.order:
                t = self.ts[n]
                if t is not me and not t.done and t.blocked_on is not None and not t.blocked_on.locked():
                    t.blocked_on = None
                    cands = [t]
                    break
        if not cands:
            if not lock.locked():
                me.blocked_on = None
                return
            self.deadlock = True
            self.main_gate.release()
            raise Deadlock()
        me_blocked = lock
        self._switch(me, cands[0])
        me.blocked_on = None
        del me_blocked

    def _finish(self, me):
        me.done = True
        # wake threads blocked on locks (they retry), prefer runnable ones
        cands = self._runnable()
        if not cands:
            for n in self.order:
                t = self.ts[n]
                if not t.done and t.blocked_on is not None:
                    t.blocked_on = None
                    cands = [t]
                    break
        if cands:
            cands[0].gate.release()
        else:
            self.main_gate.release()

    def _body(self, t):
        self._tls.t = t
        t.gate.acquire()
        try:
            if self.deadlock:
                raise Deadlock()
            t.result = t.fn()
        except Deadlock:
            t.error = "deadlock"
        except BaseException as e:  # the scenario function reports its own exceptions
            t.error = "%s: %s" % (type(e).__name__, e)
        finally:
            self._tls.t = None
            if self.deadlock:
                t.done = True
                for u in self.ts.values():
                    if not u.done:
                        try:
                            u.gate.release()
                        except RuntimeError:
                            pass
                try:
                    self.main_gate.release()
                except RuntimeError:
                    pass
            else:
                self._finish(t)

    def run(self, timeout=30):
        global _CURRENT
        _CURRENT = self
        self._instrument()
        try:
            for n in self.order:
                t = self.ts[n]
                t.thread = threading.Thread(target=self._body, args=(t,), name="sched-" + n, daemon=True)
                t.thread.start()
            self.ts[self.order[0]].gate.release()
            ok = self.main_gate.acquire(True, timeout)
            for t in self.ts.values():
                t.thread.join(2)
            if not ok:
                # nobody finished and nobody reported "blocked": a thread waits on something the
                # scheduler does not control (machinery limit, not a verdict about labrea)
                self.deadlock = True
                self.stalled = True
        finally:
            self._uninstrument()
            _CURRENT = None
        return {n: {"result": t.result, "error": t.error, "steps": t.steps} for n, t in self.ts.items()}
