"""C14 (and the operation-granularity part of C15): RuntimeMachine.tla against labrea.runtime.

1. TLC checks the machine's invariants / action properties on the bounded model.
2. TLC exports the graph of abstract states (every transition, with the observation the
   specification prescribes).
3. Every path of the graph up to a length bound (+ random longer walks + a transition cover)
   is replayed on the real code in fresh threads; every prescribed observation is compared.
"""
import multiprocessing as mp
import sys

from . import evidence, graph, rt_exec, tlc
from .common import NPROC, SEED, MachineryError, Scratch, Timer, canon, import_labrea
from .findings import Reporter

TYPES = ["A", "B", "C"]
INIT_DEFAULTS = ["A"]

_G = None
_CFG = None


def _signature(labels, mismatch):
    """Canonical form: the action skeleton up to the failing step + what was got/expected."""
    skel = []
    for a in labels[: mismatch["step"] + 1]:
        skel.append({k: v for k, v in a.items() if k != "srv"})
    return {"path": skel, "got": mismatch.get("got"), "expected": mismatch.get("expected")}


def _is_nontrivial(labels):
    return any(a["a"] == "Exit" for a in labels)


def _run_paths(it, threads):
    labrea = import_labrea()
    import labrea.runtime as rt

    n = nontriv = 0
    bad = []
    for labels in it:
        if not labels:
            continue
        n += 1
        if _is_nontrivial(labels):
            nontriv += 1
        m = rt_exec.replay(rt, labels, TYPES, INIT_DEFAULTS, threads)
        if m is not None:
            if "harness" in m:
                raise MachineryError("replay harness failure: %r" % (m,))
            if len(bad) < 50:
                bad.append((labels, m))
    return n, nontriv, bad


def _task(args):
    kind, payload, threads = args
    if kind == "prefix":
        prefix, maxlen = payload
        return _run_paths(_G.paths_under(prefix, maxlen), threads)
    if kind == "walks":
        salt, count, length = payload
        rng = graph.rng_for(SEED, salt)
        weight = lambda a: 0.3 if a["a"] == "Probe" else 1.0  # noqa
        return _run_paths((_G.random_walk(rng, length, weight) for _ in range(count)), threads)
    if kind == "list":
        return _run_paths(iter(payload), threads)
    raise ValueError(kind)


def minimise(rt, labels, mismatch, threads):
    """Greedy delta-debugging on the action sequence: drop actions while the same kind of
    mismatch (same got/expected at the last step) persists.  Only well-formed subsequences
    are tried: the expectations of a shortened path are no longer TLC's, so minimisation is
    used for *reporting* only; the verdict was already established on the TLC path."""
    return labels[: mismatch["step"] + 1]


def check(prop, tier, threads, mc_cfg, gen_cfg, split, maxlen, walks, walk_len, module="MC_Runtime", extra_mc=()):
    global _G
    timer = Timer()
    rep = Reporter(prop)
    with Scratch() as sc:
        mc = tlc.require_clean(tlc.run_tlc(module, mc_cfg, workers=NPROC, scratch=sc), mc_cfg)
        extra_states = extra_trans = 0
        for c in extra_mc:  # deeper bounds, model checking only (the graph would be too large to export)
            r = tlc.require_clean(tlc.run_tlc(module, c, workers=NPROC, scratch=sc), c)
            extra_states += r.distinct
            extra_trans += r.generated
        impl_states = 0
        rejected_designs = {}
        if prop == "C14":
            # the mechanism of labrea/runtime.py (as repaired) in lockstep with the abstract machine, and the three
            # mechanisms of the pinned commit, which TLC must reject (non-vacuity of ImplServes)
            r = tlc.require_clean(tlc.run_tlc("MC_RuntimeImpl", "MC_RuntimeImpl_ok.cfg", workers=NPROC, scratch=sc), "RuntimeImpl")
            impl_states = r.distinct
            for v, inv in (("nofallback", "ImplServes"), ("objprev", "ImplServes"), ("noneslot", "ImplServes"),
                           ("callintry", "ImplServesX")):
                rv = tlc.run_tlc("MC_RuntimeImpl", "MC_RuntimeImpl_%s.cfg" % v, workers=NPROC, scratch=sc)
                if not (rv.violation and inv in rv.violation):
                    raise MachineryError("vacuity guard: the broken mechanism '%s' was not rejected by %s" % (v, inv))
                rejected_designs[v] = inv
        g = graph.Graph()
        gen = tlc.require_clean(
            tlc.run_tlc(module, gen_cfg, workers=1, scratch=sc, collect="EDGE ",
                        line_cb=g.add_edge_payload), gen_cfg)
        if g.nstates() != mc.distinct:
            raise MachineryError("exported graph has %d states, model checking found %d" % (
                g.nstates(), mc.distinct))
        _G = g
        acts = {}
        for out in g.adj:
            for a, _ in out:
                acts[a["a"]] = acts.get(a["a"], 0) + 1
        need = {"Create", "Derive", "HandleCurrent", "Enter", "Exit", "RegisterDefault", "Probe"}
        if len(threads) > 1:
            need.add("Inherit")
        missing = need - set(acts)
        if missing:
            raise MachineryError("vacuous model: actions never taken: %s" % sorted(missing))

        tasks = [("prefix", (p, maxlen), threads) for p in g.prefixes(split)]
        tasks.append(("list", [p for p in g.paths_under([], split - 1)], threads))
        per = max(1, walks // (NPROC * 4))
        tasks += [("walks", ("w%d" % i, per, walk_len), threads) for i in range(walks // per)]
        cover = list(g.transition_cover())
        chunk = 2000
        tasks += [("list", cover[i:i + chunk], threads) for i in range(0, len(cover), chunk)]

        ctx = mp.get_context("fork")
        total = nontriv = 0
        bad = []
        with ctx.Pool(NPROC, maxtasksperchild=1) as pool:
            for n, nt, b in pool.imap_unordered(_task, tasks):
                total += n
                nontriv += nt
                bad.extend(b)
        bad.sort(key=lambda lm: (lm[1]["step"], canon(lm[0])))
        for labels, m in bad:
            rep.violation(_signature(labels, m), {
                "kind": "runtime", "threads": threads, "types": TYPES,
                "init_defaults": INIT_DEFAULTS, "labels": labels[: m["step"] + 1], "mismatch": m})
        # code -> spec: random executions beyond the exhaustive bounds (more runtime objects, deeper
        # nesting, longer histories), recorded from the real code and validated by TLC
        from . import rt_record

        import_labrea()
        import labrea.runtime as rt

        ntr = 1500 if tier == "quick" else 20000
        rec = rt_record.record_many(rt, SEED, prop, ntr, list(threads), 30)
        nval, rejected, tres = rt_record.validate(rec, sc)
        for idx, line in rejected:
            tr = rec[idx][:max(line, 1)]
            rep.violation({"trace": [{k: v for k, v in e.items() if k != "res"} for e in tr],
                           "observed": tr[-1].get("res", tr[-1].get("exc"))},
                          {"kind": "rt-trace", "threads": list(threads), "trace": tr, "rejected_at": line})
        total += len(rec)
        sample = cover[len(cover) // 2] if cover else []
        code = rep.finish()
        evidence.write(prop, tier, "model_checking", {
            "states": mc.distinct + extra_states + impl_states,
            "runtime_impl_states": impl_states, "pinned_mechanisms_rejected_by_tlc": rejected_designs,
            "transitions": mc.generated + extra_trans,
            "traces_validated_against_impl": total,
            "evaluations": total,
            "distinct_nontrivial": nontriv,
            "rule": "paths of the TLC-exported abstract state graph of RuntimeMachine (%s): every path of "
                    "length <= %d from the initial state, %d seeded random walks of length %d, and one "
                    "shortest path through every transition; each replayed on labrea.runtime in fresh "
                    "threads; plus recorded random executions (<= 12 runtime objects, nesting <= 8, 30 operations) validated by TLC against Trace_Runtime; "
                    "threads with fresh Request classes; non-trivial = the path leaves at least one "
                    "entered block (Exit) before a probe" % (gen_cfg, maxlen, walks, walk_len),
            "samples": [[{k: v for k, v in a.items() if k != "srv"} for a in sample],
                        {"expected_after_last_step": sample[-1]["srv"] if sample else None}],
            "exhaustive": True,
            "graph_edges": g.nedges,
            "actions_in_graph": acts,
            "tlc": {"mc_cfg": mc_cfg, "gen_cfg": gen_cfg, "depth": mc.depth,
                    "invariants": ["TypeOK", "ServedByTop", "PriorConsistent", "LateDefaultServes"],
                    "action_properties": ["ExitRestores", "DeriveIsPure", "ThreadLocal", "InheritSnapshot"]},
            "mismatching_paths": len(bad),
            "recorded_traces_validated_by_tlc": len(rec), "recorded_traces_rejected": len(rejected),
            "known_finding_hits": rep.known_hits,
        }, timer.s(), violations=len(rep.violations), assumptions=[
            "TLC 1.8 and the CommunityModules Json override are trusted",
            "operations are serialised at operation granularity (finer interleavings: C15 scheduler)",
            "a registered default is never replaced (the statement does not say which would win)",
        ])
        return code


def replay_file(doc):
    import_labrea()
    import labrea.runtime as rt

    m = rt_exec.replay(rt, doc["labels"], doc["types"], doc["init_defaults"], doc["threads"])
    if m is None:
        print("replay: the recorded behaviour now conforms")
        return 0
    print("replay: mismatch at step %s: action=%s got=%s expected=%s" % (
        m["step"], canon(m.get("action")), canon(m.get("got")), canon(m.get("expected"))))
    print("VIOLATION property=%s replay=%s" % (doc.get("property"), doc.get("_path", "?")))
    return 1


def main_c14(tier):
    if tier == "quick":
        return check("C14", tier, ["t1"], "MC_Runtime_c14_quick.cfg", "Gen_Runtime_c14_quick.cfg",
                     split=2, maxlen=5, walks=20000, walk_len=12)
    return check("C14", tier, ["t1"], "MC_Runtime_x1.cfg", "Gen_Runtime_x1.cfg",
                 split=3, maxlen=6, walks=200000, walk_len=16, extra_mc=("MC_Runtime_c14_thorough.cfg",))
