"""C07: overload / interface dispatch.

(a) spec/Interface.tla: every sequence of <= 2 implementation definitions (any subset of the two
    interfaces, any aliases, any provided member set incl. unknown names) replayed on real
    @interface / @implements classes; after the sequence every member is evaluated under every
    alias (and an unregistered value) and compared with the specification's table.
(b) family "dispatch" of the expression machine (datasets with a dispatch expression, overloads
    registered before and BETWEEN evaluations): paths of the exported graph replayed on one
    long-lived real graph; an evaluation must yield the specification's value under the tables
    at that time, or a value already returned earlier for the same options (stored).
"""
import multiprocessing as mp

from . import evidence, graph, tlc
from .common import NPROC, MachineryError, Scratch, Timer, canon, import_labrea
from .findings import Reporter

_G = None
ALIASES = ["p", "q"]


def _mk_interfaces(lab, form=0, tuple_alias=False):
    """The two interfaces of Interface.tla.  `form` varies HOW the members are declared (all forms the
    documentation lists): abstract members as a bare annotation or an explicit @abstractdataset; members
    with a default as a plain function, a @dataset, a @dataset that already has a dispatch of its own
    (the interface's dispatch replaces it) or a non-dataset Evaluatable."""
    def make(name, members, defaults, k):
        ns = {"__annotations__": {}}
        for m in members:
            if m in defaults:
                continue
            if (form + k) % 2 == 0:
                ns["__annotations__"][m] = str
            else:
                def ab():
                    raise AssertionError("abstract member body must never run")
                ab.__name__ = m
                ns[m] = lab.abstractdataset(ab)
        for m in defaults:
            v = "default:%s.%s" % (name, m)

            def f(_v=v):
                return _v
            f.__name__ = m
            which = (form + k) % 4
            if which == 0:
                ns[m] = staticmethod(f)
            elif which == 1:
                ns[m] = lab.dataset(f)
            elif which == 2:
                ns[m] = lab.dataset(f, dispatch=lab.Option("OTHERD"))
            else:
                ns[m] = lab.Value(v)
        # an alias is any hashable value: with tuple_alias the dispatch value is the pair (DISP, 7)
        disp = lab.evaluatable_tuple(lab.Option("DISP"), lab.Value(7)) if tuple_alias else "DISP"
        return lab.interface(disp)(type(name, (), ns))

    return {"I1": make("I1", ["a", "d"], ["d"], 0), "I2": make("I2", ["a", "e"], ["e"], 1)}


def replay_interface(lab, labels):
    from labrea.conditional import SwitchError
    from labrea.exceptions import EvaluationError

    import hashlib

    hsh = int(hashlib.sha1(canon([{k: v for k, v in a.items() if k != "obs"} for a in labels]).encode()).hexdigest(), 16)
    form = hsh % 4
    tuple_alias = (hsh // 4) % 2 == 1
    I = _mk_interfaces(lab, form, tuple_alias)
    log = []
    for step, a in enumerate(labels):
        ns = {}
        for j, m in enumerate(sorted(a["provides"])):
            v = "impl%d:%s" % (a["id"], m)

            def f(_v=v, _log=log):
                _log.append(_v)
                return _v
            f.__name__ = m
            # the documented member forms of an implementation: function, @dataset, static value, Evaluatable
            which = (form + a["id"] + j) % 4
            ns[m] = staticmethod(f) if which == 0 else lab.dataset(f) if which == 1 else v if which == 2 else lab.Value(v)
        accepted = True
        try:
            als = sorted(a["als"])
            if tuple_alias:
                als = [(x, 7) for x in als]
            # one alias is given bare (for a tuple alias: the tuple itself), several as a list
            lab.implements(*[I[i] for i in sorted(a["ifs"])], alias=als[0] if len(als) == 1 else als)(type("Impl%d" % a["id"], (), ns))
        except TypeError:
            accepted = False
        except Exception as e:  # noqa
            return {"step": step, "what": "definition raised %s" % type(e).__name__}
        if log:
            return {"step": step, "what": "defining an implementation ran a body: %s" % log}
        if accepted != a["accepted"]:
            return {"step": step, "what": "definition %s, the specification says %s" % (
                "accepted" if accepted else "rejected with TypeError", "accepted" if a["accepted"] else "rejected")}
    obs = labels[-1]["obs"]
    # TLC prints a function whose domain is a set of tuples as a list of [key, value] pairs or as
    # an object keyed by the tuple's text; normalise
    table = {}
    if isinstance(obs, dict):
        items = obs.items()
    else:
        items = obs
    for k, v in items:
        if isinstance(k, str):
            k = [x.strip(' "<>') for x in k.strip("<>").split(",")]
        table[(k[0], k[1])] = v
    for (i, m), row in sorted(table.items()):
        member = getattr(I[i], m)
        for al, exp in sorted(row.items()):
            try:
                log.clear()
                # (OTHERD: the key a member's own former dispatch read; it must play no role any more)
                got = member({"DISP": al, "OTHERD": "q" if al == "p" else "p"})
            except SwitchError:
                got = "SwitchError"
            except EvaluationError as e:
                c = e
                while c.__cause__ is not None:
                    c = c.__cause__
                got = "SwitchError" if isinstance(c, SwitchError) else "EXC:" + type(c).__name__
            if got != exp:
                return {"step": len(labels), "what": "member %s.%s under dispatch value %r" % (i, m, al), "got": got, "expected": exp}
    return None


def _task(paths):
    lab = import_labrea()
    bad = []
    nt = 0
    for labels in paths:
        if any(not a["accepted"] for a in labels):
            nt += 1
        m = replay_interface(lab, labels)
        if m is not None and len(bad) < 50:
            bad.append((labels, m))
    return len(paths), nt, bad


def run_interfaces(sc, rep):
    global _G
    mc = tlc.require_clean(tlc.run_tlc("MC_Interface", "MC_Interface.cfg", workers=NPROC, scratch=sc), "MC_Interface")
    g = graph.Graph()
    tlc.require_clean(tlc.run_tlc("MC_Interface", "Gen_Interface.cfg", workers=1, scratch=sc, collect="EDGE ",
                                  line_cb=g.add_edge_payload), "Gen_Interface")
    if g.nstates() != mc.distinct:
        raise MachineryError("exported graph and model-checked graph differ")
    paths = [p for p in g.paths_under([], 2) if p]
    chunks = [paths[i:i + 500] for i in range(0, len(paths), 500)]
    ctx = mp.get_context("fork")
    total = nontriv = 0
    bad = []
    with ctx.Pool(NPROC) as pool:
        for n, nt, b in pool.imap_unordered(_task, chunks):
            total += n
            nontriv += nt
            bad.extend(b)
    bad.sort(key=lambda lm: (len(lm[0]), canon(lm[0])))
    for labels, m in bad:
        skel = [{k: v for k, v in a.items() if k != "obs"} for a in labels]
        rep.violation({"interface_path": skel, "what": m["what"]}, {"kind": "interface", "labels": labels, "mismatch": m})
    return mc, total, nontriv, paths


def replay_file(doc):
    lab = import_labrea()
    m = replay_interface(lab, doc["labels"])
    if m is None:
        print("replay: the recorded definitions now conform")
        return 0
    print("replay: %s" % canon(m))
    print("VIOLATION property=C07 replay=%s" % doc.get("_path"))
    return 1


def main(tier):
    from . import check_expr

    prop = "C07"
    timer = Timer()
    rep = Reporter(prop)
    with Scratch() as sc:
        mc, itotal, intriv, paths = run_interfaces(sc, rep)
        st, tr, total, nontriv, viol, sample = check_expr.run_family(prop, "dispatch", tier, sc, rep)
        # composite (tuple-valued) dispatch values: same machine, another universe of dispatch values
        st2, tr2, total2, nontriv2, viol2, _ = check_expr.run_family(prop, "tupledispatch", tier, sc, rep)
        st, tr, total, nontriv, viol = st + st2, tr + tr2, total + total2, nontriv + nontriv2, viol + viol2
    from . import verdicts

    viol.sort(key=lambda v: (len(canon(v[2]["nodes"])), len(canon(v[2]["a"]["hist"])), canon(v[2])))
    for clause, detail, case in viol:
        rep.violation(verdicts.signature(prop, clause, case, detail),
                      {"kind": "expr", "prop": prop, "clause": clause, "detail": detail, "case": case})
    import os
    if viol and os.environ.get("VERIF_VERBOSE"):
        check_expr.summarize(viol)
    code = rep.finish()
    evidence.write(prop, tier, "model_checking", {
        "states": mc.distinct + st, "transitions": mc.generated + tr,
        "traces_validated_against_impl": itotal + total,
        "evaluations": itotal + total, "distinct_nontrivial": intriv + nontriv,
        "rule": "(a) every sequence of <= 2 implementation definitions of spec/Interface.tla (any subset of two interfaces sharing a "
                "member name, any alias set, any provided-member set incl. unknown names) replayed on real @interface/@implements "
                "classes: accepted/rejected-with-TypeError as specified, nothing run, and afterwards every member under every alias "
                "equals the specification's table (a rejected definition registered nothing); non-trivial = a rejected definition. "
                "(b) families dispatch and tupledispatch (dispatch values 1, '1' / the tuples (1,'1'), (1,1) and the bare 1): datasets with dispatch over an option key / Option with default / dataset, callbacks, overloads "
                "registered before and between calls; every history of <= 3 calls (exhaustive <= 3-4 nodes, simulated beyond) replayed "
                "on one long-lived real graph: each call yields the specification's value under the tables at that time or a value the "
                "same dictionary produced earlier; non-trivial = a table is non-empty",
        "samples": [sample or {}, [{k: v for k, v in a.items() if k != "obs"} for a in paths[len(paths) // 2]]],
        "exhaustive": True,
        "interface_paths": itotal, "dispatch_histories": total, "tuple_dispatch_histories": total2,
        "known_finding_hits": rep.known_hits,
    }, timer.s(), violations=len(rep.violations), assumptions=check_expr.ASSUME + [
        "an alias is registered at most once per dataset in a history (which of two registrations of one alias wins is not stated)"])
    return code
