"""Importable (module-level) callables for C20: graphs built from these can be pickled."""
from labrea import Option, dataset


BODY_LOG = []      # one entry per body execution in THIS process (C20 compares run counts, not only values)
EFFECT_LOG = []    # one entry per effect execution


def _t(name, *args):
    if name in ("f", "h", "none"):
        BODY_LOG.append(name)
    if name == "none":
        return None
    return ("T", name, tuple(args))


def body_f0():
    return _t("f")


def body_f1(a0):
    return _t("f", a0)


def body_f2(a0, a1):
    return _t("f", a0, a1)


def body_h0():
    return _t("h")


def body_h1(a0):
    return _t("h", a0)


def body_h2(a0, a1):
    return _t("h", a0, a1)


def body_none0():
    return _t("none")


def body_none1(a0):
    return _t("none")


def body_none2(a0, a1):
    return _t("none")


def var_f(*args):
    return _t("f", *args)


def var_h(*args):
    return _t("h", *args)


def var_none(*args):
    return _t("none")


def apply_g(x):
    return _t("g", x)


def cb(v):
    return _t("cb", v)


def cb_none(v):
    return None


def e1(v):
    EFFECT_LOG.append(v)
    return None


def step_g(x, p):
    return _t("g", x, p)


def abstract_body():
    raise AssertionError("abstract dataset body must never run")


def late_impl():
    return "late"


# the decorator form: the module-level name refers to the Dataset, not to the function
@dataset
def decorated(a=Option("A")):
    return ("T", "decorated", (a,))


explicit = dataset(body_f1, defaults={"a0": Option("A")})


# a CYCLIC object graph: the overload registered under "smoothed" is computed from a derivative of the very dataset
# it is registered on (derivatives share the dataset's overload table)
cyc_src = dataset(body_f0, dispatch=Option("SOURCE"))
cyc_smooth = dataset(body_h1, defaults={"a0": cyc_src.with_options({"SOURCE": "raw"})})
cyc_src.register("smoothed", cyc_smooth)
