"""Evidence files: what a run actually covered (schema: /root/.vp/EVIDENCE.schema.json)."""
import json
import os

from .common import EVIDENCE, SEED


def write(prop, tier, level, coverage, wall_s, violations=0, assumptions=()):
    os.makedirs(EVIDENCE, exist_ok=True)
    doc = {
        "property_id": prop,
        "tier": tier,
        "seed": SEED,
        "level": level,
        "coverage": coverage,
        "assumptions": list(assumptions),
        "wall_s": float(wall_s),
        "violations": int(violations),
    }
    tmp = os.path.join(EVIDENCE, prop + ".json.tmp")
    with open(tmp, "w") as f:
        json.dump(doc, f, indent=1, sort_keys=True)
    os.replace(tmp, os.path.join(EVIDENCE, prop + ".json"))
    return doc
