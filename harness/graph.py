"""State graphs exported by TLC (one "EDGE {json}" line per transition) and walks over them.

Nothing here knows what the states or actions mean: the walker only enumerates paths; the
expected observation of every step is carried by the edge label, which TLC computed.
"""
import json
import random


class Graph:
    def __init__(self):
        self.ids = {}  # canonical state text -> int
        self.adj = []  # int -> list of (label dict, int)
        self.init = None
        self.nedges = 0

    def _id(self, st):
        k = json.dumps(st, sort_keys=True, separators=(",", ":"))
        i = self.ids.get(k)
        if i is None:
            i = len(self.adj)
            self.ids[k] = i
            self.adj.append([])
        return i

    def add_edge_payload(self, payload):
        e = json.loads(payload)
        f = self._id(e["f"])
        if self.init is None:
            self.init = f
        t = self._id(e["t"])
        self.adj[f].append((e["a"], t))
        self.nedges += 1

    def nstates(self):
        return len(self.adj)

    # -- enumeration -------------------------------------------------------------------
    def prefixes(self, depth):
        """All paths (as lists of edge indices) of exactly `depth` edges from init."""
        out = []

        def rec(s, pre, d):
            if d == 0:
                out.append(list(pre))
                return
            for i, (_, t) in enumerate(self.adj[s]):
                pre.append(i)
                rec(t, pre, d - 1)
                pre.pop()

        rec(self.init, [], depth)
        return out

    def paths_under(self, prefix, maxlen):
        """Every path of length <= maxlen that extends `prefix` (a list of edge indices),
        yielded as lists of labels.  The prefix itself is yielded too."""
        s = self.init
        labels = []
        for i in prefix:
            a, s = self.adj[s][i]
            labels.append(a)
        stack = [(s, labels)]
        while stack:
            s, labels = stack.pop()
            yield labels
            if len(labels) < maxlen:
                for a, t in self.adj[s]:
                    stack.append((t, labels + [a]))

    def short_paths(self, maxlen):
        """Every path of length < maxlen' where maxlen' is the split depth (used so that the
        paths shorter than the split prefixes are replayed as well)."""
        return self.paths_under([], maxlen)

    def maximal_paths(self, prefix=(), limit=None):
        """Every path from init (extending `prefix`) that ends in a state without successors."""
        s = self.init
        labels = []
        for i in prefix:
            a, s = self.adj[s][i]
            labels.append(a)
        stack = [(s, labels)]
        n = 0
        while stack:
            s, labels = stack.pop()
            if not self.adj[s]:
                yield labels
                n += 1
                if limit and n >= limit:
                    return
                continue
            for a, t in self.adj[s]:
                stack.append((t, labels + [a]))

    def random_walk(self, rng, length, weight=None):
        s = self.init
        labels = []
        for _ in range(length):
            out = self.adj[s]
            if not out:
                break
            if weight:
                ws = [weight(a) for a, _ in out]
                a, s = rng.choices(out, weights=ws)[0]
            else:
                a, s = out[rng.randrange(len(out))]
            labels.append(a)
        return labels

    def transition_cover(self):
        """One path per edge: a shortest path to its source (BFS tree) plus the edge."""
        parent = {self.init: None}
        order = [self.init]
        for s in order:
            for a, t in self.adj[s]:
                if t not in parent:
                    parent[t] = (s, a)
                    order.append(t)

        def path_to(s):
            labels = []
            while parent[s] is not None:
                s, a = parent[s]
                labels.append(a)
            labels.reverse()
            return labels

        for s in order:
            base = path_to(s)
            for a, _ in self.adj[s]:
                yield base + [a]


def rng_for(seed, salt):
    return random.Random("%s/%s" % (seed, salt))
