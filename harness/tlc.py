"""Running TLC and reading what it prints."""
import json
import os
import re
import subprocess

from .common import SPEC, MachineryError, Scratch

_CHILDREN = []


def register_child(proc):
    _CHILDREN.append(proc)
    return proc


def kill_children():
    for p in _CHILDREN:
        try:
            if p.poll() is None:
                p.kill()
        except Exception:
            pass


import atexit
import signal

atexit.register(kill_children)


def _on_term(signum, frame):
    kill_children()
    raise SystemExit(143)


try:
    signal.signal(signal.SIGTERM, _on_term)
except Exception:
    pass

JAVA_CP = "/opt/veriftools/tla/tla2tools.jar:/opt/veriftools/tla/CommunityModules-deps.jar"


class TLCResult:
    def __init__(self):
        self.ok = False
        self.generated = 0
        self.distinct = 0
        self.depth = 0
        self.violation = None  # text of a violated invariant/property, if any
        self.error = None  # any other TLC error
        self.lines = []  # PrintT payload lines of the first collected prefix
        self.out = {}  # prefix -> payload lines
        self.coverage = {}  # action name -> (distinct, total)
        self.wall = 0.0
        self.cmd = ""
        self.raw_tail = ""


_STATS = re.compile(r"(\d+) states generated, (\d+) distinct states found")
_DEPTH = re.compile(r"depth of the complete state graph search is (\d+)")
_COV = re.compile(r"^<(\w+) line \d+, col \d+ to line \d+, col \d+ of module (\w+)>: (\d+):(\d+)")


def run_tlc(module, cfg, workers=16, scratch=None, extra=(), timeout=3600, collect=None,
            simulate=None, depth=None, seed=None, coverage=False, env=None, heap="8g",
            line_cb=None):
    """Run TLC on spec/<module>.tla with spec/cfg/<cfg>.

    collect: prefix (e.g. "EDGE ") of PrintT lines to keep (decoded to the text after the prefix).
    line_cb: called with each decoded payload instead of storing it.
    """
    if isinstance(collect, str):
        collect = (collect,)
    own = scratch is None
    scratch = scratch or Scratch()
    res = TLCResult()
    meta = scratch.path("meta-%s-%d" % (os.path.basename(cfg), os.getpid()), "x")
    meta = os.path.dirname(meta)
    cmd = ["java", "-XX:+UseParallelGC", "-Xmx" + heap, "-cp", JAVA_CP, "tlc2.TLC",
           "-workers", str(workers), "-metadir", meta, "-noGenerateSpecTE",
           "-config", os.path.join("cfg", cfg)]
    if simulate:
        cmd += ["-simulate", simulate]
    if depth:
        cmd += ["-depth", str(depth)]
    if seed is not None:
        cmd += ["-seed", str(seed)]
    if coverage:
        cmd += ["-coverage", "1"]
    cmd += list(extra) + [module + ".tla"]
    res.cmd = " ".join(cmd)
    import time

    t0 = time.time()
    e = dict(os.environ)
    if env:
        e.update(env)
    proc = register_child(subprocess.Popen(cmd, cwd=SPEC, stdout=subprocess.PIPE, stderr=subprocess.STDOUT,
                                           text=True, env=e))
    tail = []
    err_lines = []
    in_err = False
    try:
        for line in proc.stdout:
            pref = None
            if collect and line.startswith('"'):
                for c in collect:
                    if line.startswith(c, 1):
                        pref = c
                        break
            if pref is not None:
                payload = json.loads(line)[len(pref):]
                if line_cb and pref == collect[0]:
                    line_cb(payload)
                else:
                    res.out.setdefault(pref, []).append(payload)
                    if pref == collect[0]:
                        res.lines.append(payload)
                continue
            tail.append(line)
            if len(tail) > 400:
                del tail[:200]
            m = _STATS.search(line)
            if m:
                res.generated, res.distinct = int(m.group(1)), int(m.group(2))
            m = _DEPTH.search(line)
            if m:
                res.depth = int(m.group(1))
            m = _COV.match(line)
            if m:
                res.coverage[m.group(1)] = (int(m.group(3)), int(m.group(4)))
            if line.startswith("Error:") or "is violated" in line:
                in_err = True
            if in_err:
                err_lines.append(line)
        proc.wait(timeout=timeout)
    finally:
        if proc.poll() is None:
            proc.kill()
        if own:
            scratch.close()
    res.wall = round(time.time() - t0, 2)
    res.raw_tail = "".join(tail[-60:])
    text = "".join(err_lines)
    if "is violated" in text or "violated" in text and "Invariant" in text:
        res.violation = text[:4000]
    elif err_lines:
        res.error = text[:4000]
    res.ok = proc.returncode == 0 and not err_lines
    if proc.returncode != 0 and not res.violation and not res.error:
        res.error = "TLC exit code %s\n%s" % (proc.returncode, res.raw_tail)
    return res


def require_clean(res, what):
    """A TLC failure on a specification module is a machinery failure (R1), never a VIOLATION."""
    if res.violation:
        raise MachineryError("specification self-contradiction in %s:\n%s" % (what, res.violation))
    if not res.ok:
        raise MachineryError("TLC failed on %s:\n%s" % (what, res.error or res.raw_tail))
    return res
