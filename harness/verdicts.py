"""Property-shaped verdict relations over one CASE (graph + dictionary + what the
specification prescribes).  Every expected datum comes from the specification; where a
property relates the implementation to itself the other side is the same real code.
"""
import copy

from . import build, observe
from .codec import dec, dotted, force, keyset, show, strict_eq


class Result:
    def __init__(self):
        self.nontrivial = False
        self.violations = []

    def bad(self, clause, detail):
        self.violations.append((clause, detail))


def exp_failure(rec):
    return {"cls": rec["cls"], "keys": keyset(rec.get("keys", [])), "x": rec.get("x", "")}


def _cmp_outcome(res, clause, got, exp):
    """Outcome equality: same value, or same failure class (and missing key)."""
    if exp["ok"]:
        ev = dec(exp["v"])
        if not got["ok"]:
            res.bad(clause, "expected value %s, got %s" % (show(ev), observe.describe(got)))
        elif not strict_eq(got["v"], ev):
            res.bad(clause, "expected value %s, got %s" % (show(ev), show(got["v"])))
    else:
        ef = exp_failure(exp)
        if not observe.same_failure(got, ef):
            res.bad(clause, "expected failure %s %s, got %s" % (ef["cls"], sorted(ef["keys"]) or ef["x"], observe.describe(got)))


def _cmp_success(res, clause, got, exp):
    if exp["ok"]:
        if not got["ok"]:
            res.bad(clause, "expected success, got %s" % observe.describe(got))
    else:
        ef = exp_failure(exp)
        if not observe.same_failure(got, ef):
            res.bad(clause, "expected failure %s %s, got %s" % (ef["cls"], sorted(ef["keys"]) or ef["x"], observe.describe(got)))


def _fresh(case, lab, **kw):
    return build.Built(lab, case["nodes"], case["tabs"], raises=case["a"].get("raises", ()), **kw)


def judge(prop, case, lab):
    return JUDGES[prop](case, lab)


# -- C04 ---------------------------------------------------------------------------------------
def judge_c04(case, lab):
    """Option resolution: evaluate = the specification's outcome; validate succeeds/fails with it."""
    res = Result()
    a = case["a"]
    o = dec(a["o"])
    g = _fresh(case, lab)
    root_nd = case["nodes"][-1]
    res.nontrivial = root_nd["k"] == "opt"
    got = observe.call(lambda: g.root.evaluate(copy.deepcopy(o)), lab)
    _cmp_outcome(res, "evaluate", got, a["eval"])
    g2 = _fresh(case, lab)
    gotv = observe.call(lambda: g2.root.validate(copy.deepcopy(o)), lab)
    _cmp_success(res, "validate", gotv, a["validate"])
    if root_nd["k"] == "opt":
        _c04_set(res, case, lab, o)
        _c04_namespace(res, case, lab, o)
    # keys(): only presence is cross-checked here (content is C03 / C09)
    g3 = _fresh(case, lab)
    gotk = observe.call(lambda: set(g3.root.keys(copy.deepcopy(o))), lab)
    if gotk["ok"]:
        absent = [k for k in gotk["v"] if not _has(o, k)]
        if absent:
            res.bad("keys-present", "keys() reported absent keys %s" % sorted(absent))
    return res


def _leaf_paths(d, pre=()):
    for k, v in d.items():
        if isinstance(v, dict):
            yield from _leaf_paths(v, pre + (k,))
        else:
            yield pre + (k,), v


def _c04_set(res, case, lab, o):
    """Option.set with a non-mapping value: the option then evaluates to it, every other key is
    intact, the input dictionary is unmodified; the result equals the specification's SetPath."""
    root_nd = case["nodes"][-1]
    path = root_nd["p"]
    if any(seg.isdigit() for seg in path):
        return  # set() addresses mapping keys; list-indexed keys are outside the statement
    # a prefix of the path holding a non-section value would have to be replaced: ill-sorted
    cur = o
    for seg in path[:-1]:
        if seg in cur and not isinstance(cur[seg], dict):
            return
        cur = cur.get(seg, {})
    if isinstance(cur.get(path[-1]), dict):
        return
    plain = lab.Option(".".join(path))
    for v in (0, "s", None, [1, 2], False):
        before = copy.deepcopy(o)
        live = copy.deepcopy(o)
        try:
            r = plain.set(live, copy.deepcopy(v))
        except Exception as e:  # noqa
            res.bad("set-raises", "Option.set raised %s" % type(e).__name__)
            return
        if not strict_eq(live, before):
            res.bad("set-mutates-input", "Option.set changed its input from %s to %s" % (before, live))
        got = observe.call(lambda: plain.evaluate(r), lab)
        if not (got["ok"] and strict_eq(got["v"], v)):
            res.bad("set-get", "after set(%r) the option evaluates to %s" % (v, observe.describe(got)))
        mine = tuple(path)
        for p, val in _leaf_paths(before):
            if p[:len(mine)] == mine:
                continue
            cur, ok = r, True
            for seg in p:
                if not isinstance(cur, dict) or seg not in cur:
                    ok = False
                    break
                cur = cur[seg]
            if not ok or not strict_eq(cur, val):
                res.bad("set-other-keys", "after set, key %s is %s (was %r)" % (".".join(p), "missing" if not ok else repr(cur), val))
                break
        if type(v) is int and v == 0 and not strict_eq(r, dec(case["a"]["set0"])):
            res.bad("set-vs-spec", "set(0) = %s, the specification's overlay gives %s" % (r, dec(case["a"]["set0"])))


def _ns_build(res, case, lab, o):
    """The root Option declared inside a namespace NS (one of the documented declaration forms, one to four levels
    deep, implicit and explicit sub-namespaces).  Returns (NS, member, options for NS, full path, extra) or None."""
    nodes = case["nodes"]
    root_nd = nodes[-1]
    def templated(v):
        if isinstance(v, str):
            return "{" in v
        if isinstance(v, dict):
            return any(templated(x) for x in v.values())
        if isinstance(v, list):
            return any(templated(x) for x in v)
        return False

    if templated(o) or any(seg.isdigit() for seg in root_nd["p"]):
        return None  # references inside values are relative to the top of the dictionary, not to NS
    kw = {}
    if root_nd["d"]:
        dn = nodes[root_nd["d"] - 1]
        if dn["k"] != "val":
            return None
        kw["default"] = dec(dn["v"])
    if root_nd["dom"]:
        dn = nodes[root_nd["dom"] - 1]
        if dn["k"] != "val":
            return None
        kw["domain"] = dec(dn["v"])
    path = root_nd["p"]
    # class NS: [class S:] LEAF = Option('LEAF', default=..., domain=...)
    # the member is declared in one of the equivalent documented forms
    form = (len(canon_nodes(case)) + len(path)) % 4
    if form == 1:
        ns_dict = {path[-1]: lab.Option.auto(**kw)}
    elif form == 2 and "domain" not in kw and "default" in kw and not callable(kw["default"]):
        ns_dict = {path[-1]: kw["default"]}                     # A = 5
    elif form == 3 and not kw:
        ns_dict = {"__annotations__": {path[-1]: object}}      # A: int
    else:
        ns_dict = {path[-1]: lab.Option(path[-1], **kw)}
    explicit = (len(canon_nodes(case)) + len(repr(o))) % 2 == 0
    # one or two further levels around the option's own path (NS.[N2.]<path>): with N2 the leaf sits three or
    # four namespace levels deep; every level alternately an implicit sub-namespace (a plain nested class) and
    # an explicit namespace object (the _inherit path, nested explicit namespaces included)
    extra = ["N2"] if (len(canon_nodes(case)) + len(repr(o))) % 3 == 0 else []
    full = extra + list(path)
    try:
        for depth, seg in enumerate(reversed(full[:-1])):
            cls = type(seg, (), ns_dict)
            ns_dict = {seg: lab.Option.namespace(cls) if (explicit and (depth == 0 or extra)) else cls}
        # the same declarations are also mounted in a second namespace, which is used first: a member belongs to
        # the namespace it is reached through (NSB.<path> reads under NSB, NS.<path> under NS)
        NSB = lab.Option.namespace(type("NSB", (), dict(ns_dict)))
        mb = NSB
        for seg in full:
            mb = getattr(mb, seg)
        observe.call(lambda: mb.evaluate({"NSB": {}}), lab)
        NS = lab.Option.namespace(type("NS", (), ns_dict))
        member = NS
        for seg in full:
            member = getattr(member, seg)
    except Exception as e:  # noqa
        res.bad("namespace-definition", "defining the namespace raised %s: %s" % (type(e).__name__, e))
        return None
    o2 = {"NS": {"N2": copy.deepcopy(o)} if extra else copy.deepcopy(o)}
    return NS, member, o2, full, extra


def _c11_namespace(res, case, lab, o):
    """explain() of a namespace against its own keys() / validate() (the C11 clauses on a Namespace object)."""
    built = _ns_build(Result(), case, lab, o)
    if built is None:
        return
    NS, member, o2, full, extra = built
    for target, name in ((NS, "NS"), (member, "NS." + ".".join(full))):
        x = observe.call(lambda: set(target.explain(copy.deepcopy(o2))), lab)
        if not x["ok"]:
            continue
        k = observe.call(lambda: set(target.keys(copy.deepcopy(o2))), lab)
        v = observe.call(lambda: target.validate(copy.deepcopy(o2)), lab)
        absent = {key for key in x["v"] if not _has(o2, key)}
        if k["ok"] and not k["v"] <= x["v"]:
            res.bad("namespace-explain-covers-keys", "%s: explain() = %s lacks keys() members %s" % (name, sorted(x["v"]), sorted(k["v"] - x["v"])))
        if not absent and not v["ok"] and v.get("cls") == "KeyNotFound":
            res.bad("namespace-none-absent", "%s: every explained key is present, yet validate fails for missing %r" % (name, v.get("key")))
        if absent and v["ok"]:
            res.bad("namespace-absent-means-missing", "%s: explain lists absent keys %s but validate passes" % (name, sorted(absent)))
        if not v["ok"] and v.get("cls") == "KeyNotFound" and v.get("key") not in x["v"]:
            res.bad("namespace-missing-is-listed", "%s: validate names missing key %r which explain() = %s does not list" % (name, v.get("key"), sorted(x["v"])))


def _c04_namespace(res, case, lab, o):
    """The option declared inside a namespace behaves like the equivalent fully-qualified Option."""
    built = _ns_build(res, case, lab, o)
    if built is None:
        return
    NS, member, o2, full, extra = built
    path = full
    got = observe.call(lambda: member.evaluate(copy.deepcopy(o2)), lab)
    exp = case["a"]["eval"]
    if exp["ok"]:
        if not (got["ok"] and strict_eq(got["v"], dec(exp["v"]))):
            res.bad("namespace-member", "namespace member NS.%s gives %s, the equivalent Option %s" % (
                ".".join(path), observe.describe(got), show(dec(exp["v"]))))
    else:
        ef = exp_failure(exp)
        ef["keys"] = {"NS." + ("N2." if extra else "") + k for k in ef["keys"]}
        if not observe.same_failure(got, ef):
            res.bad("namespace-member", "namespace member NS.%s gives %s, the equivalent Option fails with %s" % (
                ".".join(path), observe.describe(got), exp["cls"]))
    # evaluating the namespace yields the section built from its members
    whole = observe.call(lambda: NS.evaluate(copy.deepcopy(o2)), lab)
    if exp["ok"]:
        cur = whole["v"] if whole["ok"] else None
        for seg in path:
            cur = cur.get(seg) if isinstance(cur, dict) else None
        if not whole["ok"] or not strict_eq(cur, dec(exp["v"])):
            res.bad("namespace-evaluate", "NS(options) = %s does not hold %s under %s" % (
                observe.describe(whole), show(dec(exp["v"])), ".".join(path)))


def _has(o, key):
    cur = o
    for seg in key.split("."):
        if isinstance(cur, dict):
            if seg.isdigit() or seg not in cur:
                return False
            cur = cur[seg]
        elif isinstance(cur, list):
            if not seg.isdigit() or int(seg) >= len(cur):
                return False
            cur = cur[int(seg)]
        else:
            return False
    return True


# -- C09 ---------------------------------------------------------------------------------------
def judge_c09(case, lab):
    """Templates: evaluate = the specification's substitution; keys/explain include every read."""
    res = Result()
    a = case["a"]
    o = dec(a["o"])
    kinds = {nd["k"] for nd in case["nodes"]}
    templated = "tmpl" in kinds or "{" in repr(o)
    res.nontrivial = templated
    if not templated:
        return res
    g = _fresh(case, lab)
    got = observe.call(lambda: g.root.evaluate(copy.deepcopy(o)), lab)
    _cmp_outcome(res, "evaluate", got, a["eval"])
    reads = keyset(a["reads"])
    if a["keys"]["ok"]:
        g2 = _fresh(case, lab)
        gotk = observe.call(lambda: set(g2.root.keys(copy.deepcopy(o))), lab)
        need = {k for k in reads if _has(o, k)}
        if gotk["ok"] and not need <= gotk["v"]:
            res.bad("keys-cover-reads", "keys() = %s lacks read keys %s" % (sorted(gotk["v"]), sorted(need - gotk["v"])))
    if a["explain"]["ok"]:
        g3 = _fresh(case, lab)
        gotx = observe.call(lambda: set(g3.root.explain(copy.deepcopy(o))), lab)
        need = reads
        if gotx["ok"] and not need <= gotx["v"]:
            res.bad("explain-cover-reads", "explain() = %s lacks read keys %s" % (sorted(gotx["v"]), sorted(need - gotx["v"])))
    return res


# -- shared: observing one case ----------------------------------------------------------------
def _stateful(case):
    return any(nd["k"] in ("ds", "cached") for nd in case["nodes"])


class Obs:
    """Lazily evaluated observations of one case on freshly built graphs (a separate graph per
    call when the graph has caches, so that no call is influenced by an earlier one)."""

    def __init__(self, case, lab):
        self.case, self.lab = case, lab
        self.o = dec(case["a"]["o"])
        self._g = None
        self._memo = {}
        self.stateful = _stateful(case)

    def graph(self):
        if self.stateful or self._g is None:
            self._g = _fresh(self.case, self.lab)
        return self._g

    def get(self, what, o=None):
        key = (what, None if o is None else repr(o))
        if key not in self._memo:
            oo = copy.deepcopy(self.o if o is None else o)
            g = self.graph()
            n0 = len(g.log)
            if what == "eval":
                r = observe.call(lambda: g.root.evaluate(oo), self.lab)
            elif what == "validate":
                r = observe.call(lambda: g.root.validate(oo), self.lab)
            elif what == "keys":
                r = observe.call(lambda: set(g.root.keys(oo)), self.lab)
            elif what == "explain":
                r = observe.call(lambda: set(g.root.explain(oo)), self.lab)
            elif what == "fingerprint":
                r = observe.call(lambda: g.root.fingerprint(oo), self.lab)
            else:
                raise ValueError(what)
            r["log"] = list(g.log[n0:])
            self._memo[key] = r
        return self._memo[key]


def same_outcome(a, b):
    """Two observed outcomes of the real code are the same (value, or failure class and key)."""
    if a["ok"] != b["ok"]:
        return False
    if a["ok"]:
        return strict_eq(a["v"], b["v"])
    return a.get("cls") == b.get("cls") and a.get("key") == b.get("key") and a.get("x") == b.get("x")


def restrict(o, keys):
    """o restricted to the dotted keys (a key naming a section keeps the whole section, a
    list-indexed key keeps the whole list) -- mirrors Restrict of spec/Values.tla."""
    out = {}
    for k in sorted(keys, key=lambda k: -k.count(".")):  # longer keys first, whole sections win
        segs = k.split(".")
        src, dst = o, out
        for i, seg in enumerate(segs):
            if not isinstance(src, dict) or seg not in src:
                break
            if i == len(segs) - 1 or not isinstance(src[seg], dict):
                dst[seg] = copy.deepcopy(src[seg])
                break
            if not isinstance(dst.get(seg), dict):
                dst[seg] = {}
            dst = dst[seg]
            src = src[seg]
    return out


def benign(rec):
    return rec["ok"] or rec["cls"] not in ("User", "Domain", "IllTyped")


# -- C05 ---------------------------------------------------------------------------------------
def judge_c05(case, lab):
    res = Result()
    ob = Obs(case, lab)
    res.nontrivial = len(case["nodes"]) > 1
    _cmp_outcome(res, "evaluate", ob.get("eval"), case["a"]["eval"])
    return res


# -- C10 ---------------------------------------------------------------------------------------
def judge_c10(case, lab):
    res = Result()
    a = case["a"]
    ob = Obs(case, lab)
    e, v, k = ob.get("eval"), ob.get("validate"), ob.get("keys")
    pre = benign(a["eval"]) and benign(a["validate"]) and benign(a["keys"]) and not a["swallows"]
    res.nontrivial = not (a["eval"]["ok"] and a["validate"]["ok"] and a["keys"]["ok"])
    if pre and not (e["ok"] == v["ok"] == k["ok"]):
        res.bad("agree", "bodies total and values in domain, yet evaluate: %s | validate: %s | keys: %s" % (
            observe.describe(e), observe.describe(v), observe.describe(k)))
    # validation and key inspection evaluate only what chooses a branch (the specification's ValRuns)
    allowed = set(a["valruns"])
    for what in ("validate", "keys"):
        ran = sorted({ev[3] for ev in ob.get(what)["log"] if ev[0] in ("body", "callback", "apply", "effect") and ev[3] and ev[3] not in allowed})
        if ran and benign(a["validate"]) and not a["swallows"]:
            res.bad("selectors-only-" + what, "%s ran callables of nodes %s; only %s are needed to choose a branch" % (what, ran, sorted(allowed)))
    if v["ok"] and not e["ok"] and e.get("cls") == "KeyNotFound" and not a["swallows"]:
        res.bad("validate-guards", "validate passed but evaluate fails for missing option %r" % e.get("key"))
    return res


# -- C11 ---------------------------------------------------------------------------------------
def judge_c11(case, lab):
    res = Result()
    a = case["a"]
    ob = Obs(case, lab)
    if case["nodes"][-1]["k"] == "opt":
        _c11_namespace(res, case, lab, ob.o)
    x = ob.get("explain")
    if not x["ok"]:
        res.nontrivial = True
        if a["explain"]["ok"]:
            res.bad("explain-fails", "explain failed (%s) although the branch can be chosen" % observe.describe(x))
        elif a["explain"]["cls"] == "Insufficient" and x.get("boundary") != "InsufficientInformationError":
            res.bad("explain-error-kind", "explain failed with %s, not an insufficient-information error" % observe.describe(x))
        return res
    k, v = ob.get("keys"), ob.get("validate")
    ex = x["v"]
    absent = {key for key in ex if not _has(ob.o, key)}
    res.nontrivial = bool(absent)
    if k["ok"] and not k["v"] <= ex:
        res.bad("explain-covers-keys", "explain() = %s lacks keys() members %s" % (sorted(ex), sorted(k["v"] - ex)))
    if not absent and not v["ok"] and v.get("cls") == "KeyNotFound":
        res.bad("none-absent", "every explained key is present, yet validate fails for missing %r" % v.get("key"))
    if absent and v["ok"]:
        res.bad("absent-means-missing", "explain lists absent keys %s but validate passes" % sorted(absent))
    if not v["ok"] and v.get("cls") == "KeyNotFound" and v.get("key") not in ex:
        res.bad("missing-is-listed", "validate names missing key %r which explain() = %s does not list" % (v.get("key"), sorted(ex)))
    return res


# -- C03 ---------------------------------------------------------------------------------------
def judge_c03_group(cases, lab):
    out = []
    fps = []
    for case in cases:
        res = Result()
        a = case["a"]
        ob = Obs(case, lab)
        k = ob.get("keys")
        if k["ok"]:
            K = k["v"]
            res.nontrivial = bool(K)
            absent = sorted(key for key in K if not _has(ob.o, key))
            if absent:
                res.bad("present-only", "keys() reports absent keys %s" % absent)
            else:
                if a["keys"]["ok"] and keyset(a["keys"]["ks"]) == K:
                    o_r = dec(a["restrict"])  # computed by the specification
                else:
                    o_r = restrict(ob.o, K)
                e, e_r = ob.get("eval"), ob.get("eval", o_r)
                if not same_outcome(e, e_r):
                    res.bad("sufficient-eval", "on the options restricted to keys() = %s evaluate gives %s, on the full options %s" % (
                        sorted(K), observe.describe(e_r), observe.describe(e)))
                k_r = ob.get("keys", o_r)
                if not (k_r["ok"] and k_r["v"] == K):
                    res.bad("sufficient-keys", "keys() on the restricted options = %s, on the full options %s" % (
                        observe.describe(k_r), sorted(K)))
                fp = ob.get("fingerprint")
                if fp["ok"]:
                    fps.append((case, ob.o, K, fp["v"], res))
                    if len(K) >= 2 and len(_C03_PENDING) < 40:
                        _C03_PENDING.append((case, fp["v"].hex(), res))
                else:
                    res.bad("fingerprint-fails", "keys() succeeds but fingerprint() fails: %s" % observe.describe(fp))
        out.append((case, res))
    # fingerprints: equal iff the reported keys and their values are equal
    for i in range(len(fps)):
        ci, oi, Ki, fi, ri = fps[i]
        ri_restr = restrict(oi, Ki)
        for j in range(i + 1, len(fps)):
            cj, oj, Kj, fj, rj = fps[j]
            same = Ki == Kj and strict_eq(ri_restr, restrict(oj, Kj))
            if same and fi != fj:
                rj.bad("fp-functional", "same reported keys and values as %s but a different fingerprint" % (oi,))
            if not same and fi == fj:
                rj.bad("fp-injective", "fingerprint equal to that of %s although reported keys/values differ (%s vs %s)" % (
                    oi, sorted(Ki), sorted(Kj)))
    return out


# -- C08 ---------------------------------------------------------------------------------------
def _unwrapped(case):
    """The same graph with the root's pre-set / default options taken away (for `with`: the
    wrapped expression itself)."""
    nodes = copy.deepcopy(case["nodes"])
    root = nodes[-1]
    empty = {"t": "d", "d": {}}
    if root["k"] == "with":
        keep = root["inner"]
        return dict(case, nodes=nodes[:keep]) if keep == len(nodes) - 1 else None
    if root["k"] == "ds":
        root["q"], root["dd"] = empty, empty
        return dict(case, nodes=nodes)
    if root["k"] == "dsof":
        # the derivative without its extra options is the base dataset with ITS options removed too
        return None
    return None


def judge_c08(case, lab):
    res = Result()
    a = case["a"]
    root = case["nodes"][-1]
    if root["k"] not in ("with", "ds", "dsof"):
        return res
    o = dec(a["o"])
    res.nontrivial = True
    # (1) wrapped under o  ==  unwrapped under the overlaid dictionary computed by the specification
    overlay = dec(a["overlay"])
    un = _unwrapped(case)
    g = _fresh(case, lab)
    snap_o = copy.deepcopy(o)
    snap_p = copy.deepcopy(g.presets)
    o_live = copy.deepcopy(o)
    got = observe.call(lambda: g.root.evaluate(o_live), lab)
    if un is not None:
        gu = _fresh(un, lab)
        ref = observe.call(lambda: gu.root.evaluate(copy.deepcopy(overlay)), lab)
        if not same_outcome(got, ref):
            res.bad("overlay-evaluate", "wrapped under o: %s; unwrapped under o overlaid by the pre-set options %s: %s" % (
                observe.describe(got), overlay, observe.describe(ref)))
        gv = observe.call(lambda: _fresh(case, lab).root.validate(copy.deepcopy(o)), lab)
        rv = observe.call(lambda: _fresh(un, lab).root.validate(copy.deepcopy(overlay)), lab)
        if gv["ok"] != rv["ok"]:
            res.bad("overlay-validate", "validate wrapped: %s; unwrapped under the overlay: %s" % (
                observe.describe(gv), observe.describe(rv)))
    # the specification's own value (covers derivatives, for which no unwrapped twin is built)
    _cmp_outcome(res, "overlay-spec", got, a["eval"])
    # derivatives compose: two successive with_options / with_default_options calls that touch the
    # same section are the recursive overlay of both (confectioner.mix, the pinned dependency)
    if root["k"] == "ds":
        from confectioner import mix

        def nest(path, v):
            d = v
            for seg in reversed(path):
                d = {seg: d}
            return d

        for path in a["mentions"]:
            if len(path) < 2 or any(seg.isdigit() for seg in path):
                continue
            for p1, p2 in ((nest(path, 901), nest(path[:-1] + ["VERIF_SIBLING"], 902)), (nest(path, 901), nest(path, 903))):
              for mode in ("with_options", "with_default_options"):
                  gd = _fresh(case, lab)
                  chained = getattr(getattr(gd.root, mode)(copy.deepcopy(p1)), mode)(copy.deepcopy(p2))
                  got2 = observe.call(lambda: chained.evaluate(copy.deepcopy(o)), lab)
                  # reference: the dataset WITHOUT its own pre-set / default options, under the overlay
                  #   defaults (dd [+ p1 + p2])  <  caller options  <  pre-set (q [+ p1 + p2])
                  q0, dd0 = dec(root["q"]), dec(root["dd"])
                  if mode == "with_options":
                      q0 = mix(mix(q0, copy.deepcopy(p1)), copy.deepcopy(p2))
                  else:
                      dd0 = mix(mix(dd0, copy.deepcopy(p1)), copy.deepcopy(p2))
                  eff = mix(mix(dd0, copy.deepcopy(o)), q0)
                  gr = _fresh(_unwrapped(case), lab)
                  ref2 = observe.call(lambda: gr.root.evaluate(eff), lab)
                  if not (got2.get("lazy") or ref2.get("lazy")) and not same_outcome(got2, ref2):
                      res.bad("derivatives-compose", "%s(%s).%s(%s) under %s gives %s; the dataset under the overlaid options %s gives %s" % (
                          mode, p1, mode, p2, o, observe.describe(got2), eff, observe.describe(ref2)))
    # sibling derivatives made from ONE dataset, evaluated one after the other: each is the dataset under its own overlay
    if root["k"] == "ds":
        for path in a["mentions"]:
            if any(seg.isdigit() for seg in path):
                continue
            d = lambda v: (lambda x: x)(__import__("functools").reduce(lambda acc, seg: {seg: acc}, reversed(path), v))   # noqa: E731
            for mode in ("with_default_options", "with_options"):
                gs = _fresh(case, lab)
                sibs = [getattr(gs.root, mode)(d(700 + k)) for k in (1, 2)]
                outs = [observe.call(lambda s_=s_: s_.evaluate(copy.deepcopy(o)), lab) for s_ in sibs]
                gf = _fresh(case, lab)
                alone = observe.call(lambda: getattr(gf.root, mode)(d(702)).evaluate(copy.deepcopy(o)), lab)
                if outs[1].get("lazy") or alone.get("lazy"):
                    continue
                if not same_outcome(outs[1], alone):
                    res.bad("sibling-overlay", "%s({%s: 702}) evaluated after its sibling ({%s: 701}) under %s gives %s; alone it gives %s" % (
                        mode, ".".join(path), ".".join(path), o, observe.describe(outs[1]), observe.describe(alone)))
    # (2) no call modifies the caller's dictionary or the pre-set dictionaries
    for what in ("validate", "keys", "explain"):
        fn = getattr(g.root, what)
        observe.call(lambda: fn(o_live), lab)
    if not strict_eq(o_live, snap_o):
        res.bad("caller-mutated", "caller's dictionary changed from %s to %s" % (snap_o, o_live))
    if not strict_eq(g.presets, snap_p):
        res.bad("preset-mutated", "pre-set dictionaries changed from %s to %s" % (snap_p, g.presets))
    return res


# -- C01 / C02 / C06: histories on one long-lived graph ------------------------------------------
def _orders(n, seedstr):
    import random

    idx = list(range(n))
    yield idx
    yield idx[::-1]
    rng = random.Random(seedstr)
    for _ in range(2):
        sh = idx[:]
        rng.shuffle(sh)
        yield sh


def _blind_tag(cases):
    """A history on a graph in which some evaluation recovers from a failure (the specification's KeyBlind):
    what labrea keys the entry on cannot be sufficient there -- the listed finding class `recovered-failure`."""
    return "[recovered-failure] " if any(c["a"].get("keyblind") for c in cases) else ""


def judge_c01_group(cases, lab):
    """Every dictionary of the graph evaluated in several orders on ONE long-lived instance;
    each outcome must equal that of a freshly built copy (and the specification's value)."""
    out = {id(c): Result() for c in cases}
    if not cases or not _stateful(cases[0]):
        return [(c, out[id(c)]) for c in cases]
    fresh = []
    for c in cases:
        o = dec(c["a"]["o"])
        g = _fresh(c, lab)
        fresh.append((o, observe.call(lambda: g.root.evaluate(copy.deepcopy(o)), lab)))
        _cmp_outcome(out[id(c)], "fresh-vs-spec", fresh[-1][1], c["a"]["eval"])
    if any(f[1].get("lazy") for f in fresh):
        # the graph hands out one-shot iterators (Iter / Map results that nothing consumed): what a
        # second evaluation of a cached one-shot iterator yields is outside the statement
        return [(c, out[id(c)]) for c in cases]
    for order in _orders(len(cases), canon_nodes(cases[0])):
        g = _fresh(cases[0], lab)
        hist = []
        for i in order:
            o, ref = fresh[i]
            got = observe.call(lambda: g.root.evaluate(copy.deepcopy(o)), lab)
            res = out[id(cases[i])]
            res.nontrivial = res.nontrivial or bool(hist)
            if not same_outcome(got, ref):
                res.bad("transparent", "%safter evaluating %s on the same graph, evaluate gives %s; a fresh copy gives %s" % (
                    _blind_tag(cases), hist[-4:], observe.describe(got), observe.describe(ref)))
            hist.append(o)
    # the caller may reuse ONE dictionary object and change it in place between calls: what counts is its content
    # at the time of the call
    g = _fresh(cases[0], lab)
    live = {}
    for i in range(len(cases)):
        o, ref = fresh[i]
        live.clear()
        live.update(copy.deepcopy(o))
        got = observe.call(lambda: g.root.evaluate(live), lab)
        if not same_outcome(got, ref):
            out[id(cases[i])].bad("transparent", "%sthe caller's dictionary object, changed in place to %s since the previous call, evaluates to %s; a fresh copy gives %s" % (
                _blind_tag(cases), o, observe.describe(got), observe.describe(ref)))
    # derivatives of one dataset share its cache: siblings with different pre-set / default values of
    # a key the dataset mentions, evaluated one after the other, each against a fresh graph
    if cases[0]["nodes"][-1]["k"] == "ds":
        def nest(path, v):
            d = v
            for seg in reversed(path):
                d = {seg: d}
            return d

        for path in cases[0]["a"]["mentions"]:
            if any(seg.isdigit() for seg in path):
                continue
            for mode in ("with_default_options", "with_options"):
                for c in cases[:6]:
                    o = dec(c["a"]["o"])
                    g = _fresh(c, lab)
                    sib = [getattr(g.root, mode)(nest(path, 900 + k)) for k in (1, 2)]
                    got = [observe.call(lambda s=s: s.evaluate(copy.deepcopy(o)), lab) for s in sib]
                    g2 = _fresh(c, lab)
                    ref2 = observe.call(lambda: getattr(g2.root, mode)(nest(path, 902)).evaluate(copy.deepcopy(o)), lab)
                    if got[1].get("lazy") or ref2.get("lazy"):
                        continue
                    if not same_outcome(got[1], ref2):
                        out[id(c)].bad("sibling-derivatives", "%s({%s: 902}) evaluated after its sibling ({%s: 901}) under %s gives %s; on a fresh graph %s" % (
                            mode, ".".join(path), ".".join(path), o, observe.describe(got[1]), observe.describe(ref2)))
    return [(c, out[id(c)]) for c in cases]


def canon_nodes(case):
    import json

    return json.dumps(case["nodes"], sort_keys=True)


def _runs(log, kind="body"):
    cnt = {}
    for e in log:
        if e[0] == kind:
            cnt[e[1]] = cnt.get(e[1], 0) + 1
    return cnt


def judge_c02_group(cases, lab):
    out = {id(c): Result() for c in cases}
    if not cases or not _stateful(cases[0]):
        return [(c, out[id(c)]) for c in cases]
    nodes = cases[0]["nodes"]
    cached_bodies = _cached_body_ids(nodes)
    for c in cases:
        res = out[id(c)]
        a = c["a"]
        o = dec(a["o"])
        g = _fresh(c, lab)
        first = observe.call(lambda: g.root.evaluate(copy.deepcopy(o)), lab)
        log1 = list(g.log)
        if first.get("lazy"):
            continue
        # (4) within one evaluation: runs per cached dataset <= distinct demands (specification)
        permit = {p["d"]: p["c"] for p in a["permit"]}
        runs = {}
        for e in log1:
            if e[0] == "body" and e[3] in cached_bodies:
                runs[e[3]] = runs.get(e[3], 0) + 1
        for d, n in runs.items():
            if n > permit.get(d, 0):
                res.bad("runs-per-evaluation", "dataset node %d ran %d times in one evaluation; the specification permits %d" % (
                    d, n, permit.get(d, 0)))
        # (5) effects: once per body run of their dataset, after it, with its value
        _check_effects(res, log1, nodes, first)
        if not first["ok"]:
            continue
        res.nontrivial = True
        # (1) exact repeat, (2) unmentioned keys added/changed, (3) top-level order permuted
        mentions = keyset(a["mentions"])
        variants = [("repeat", copy.deepcopy(o)),
                    ("unmentioned-key", _with_unmentioned(o, mentions)),
                    ("key-order", dict(reversed(list(copy.deepcopy(o).items()))))]
        for name, o2 in variants:
            n0 = len(g.log)
            again = observe.call(lambda: g.root.evaluate(o2), lab)
            new = [e for e in g.log[n0:] if e[0] in ("body", "effect") and e[3] in cached_bodies]
            if new:
                res.bad("memo-" + name, "re-evaluation (%s) ran %s again" % (name, [(e[0], e[1]) for e in new][:4]))
            if not same_outcome(first, again):
                res.bad("memo-value-" + name, "re-evaluation (%s) returned %s instead of %s" % (
                    name, observe.describe(again), observe.describe(first)))
    # across the whole history: a cached dataset's body runs at most once per distinct demand
    # (dataset, options its sub-graph mentions) -- also when it is reached through different parents
    g = _fresh(cases[0], lab)
    demands = {}
    lazy = False
    for c in cases:
        r = observe.call(lambda: g.root.evaluate(copy.deepcopy(dec(c["a"]["o"]))), lab)
        lazy = lazy or r.get("lazy")
        for dm in c["a"].get("demk", c["a"]["dem"]):   # identified by the options the dataset depends on (DemK)
            demands.setdefault(dm["d"], set()).add(canon_val(dm["oe"]))
    if not lazy:
        total = {}
        for e in g.log:
            if e[0] == "body" and e[3] in cached_bodies:
                total[e[3]] = total.get(e[3], 0) + 1
        for d, n in total.items():
            if n > len(demands.get(d, ())):
                out[id(cases[-1])].bad("runs-per-history", "dataset node %d ran %d times over the history of %d evaluations; it was demanded under %d distinct option assignments" % (
                    d, n, len(cases), len(demands.get(d, ()))))
    # effects attached after the dataset has been used run for every later body execution
    root_nd = nodes[-1]
    if root_nd["k"] == "ds" and len(cases) >= 2 and (root_nd["cb"] or not root_nd["disp"]):
        # (with a dispatch and no callback the harness cannot tell whether the dataset itself was
        # computed: a registered implementation runs instead of its own body)
        g = _fresh(cases[0], lab)
        first = observe.call(lambda: g.root.evaluate(copy.deepcopy(dec(cases[0]["a"]["o"]))), lab)
        if not first.get("lazy"):
            late = []
            late_cb = lambda v, _l=late: _l.append(v)   # noqa: E731
            g.root.add_effects(late_cb)
            # the same callback attached to a derivative as well: each dataset has its own effects
            g.root.with_options({"VERIF_UNUSED": 1}).add_effects(late_cb)
            rid = len(nodes)
            # what is stored stays stored: attaching an effect, or switching the dataset's effects off and on
            # again, neither recomputes nor re-runs effects for options that were already evaluated
            o0 = dec(cases[0]["a"]["o"])
            if first["ok"] and root_nd.get("cache", "mem") == "mem":
                for step in ("add_effects", "disable_effects", "enable_effects"):
                    if step == "disable_effects":
                        g.root.disable_effects()
                    elif step == "enable_effects":
                        g.root.enable_effects()
                    n0, l0 = len(g.log), len(late)
                    again = observe.call(lambda: g.root.evaluate(copy.deepcopy(o0)), lab)
                    new = [e for e in g.log[n0:] if e[0] in ("body", "callback", "effect") and e[3] == rid]
                    if new or len(late) != l0:
                        out[id(cases[0])].bad("memo-after-" + step, "after %s() a repeated evaluation ran %s%s again" % (
                            step, [(e[0], e[1]) for e in new][:4], " and the late effect" if len(late) != l0 else ""))
                    if not same_outcome(first, again):
                        out[id(cases[0])].bad("memo-value-after-" + step, "after %s() a repeated evaluation returned %s instead of %s" % (
                            step, observe.describe(again), observe.describe(first)))
            for c in cases[1:]:
                o2 = dec(c["a"]["o"])
                n0, l0 = len(g.log), len(late)
                r = observe.call(lambda: g.root.evaluate(copy.deepcopy(o2)), lab)
                ran = [e for e in g.log[n0:] if e[0] in ("callback", "body") and e[3] == rid]
                root_ran = len([e for e in ran if e[0] == ("callback" if root_nd["cb"] else "body")])
                if r["ok"] and (root_nd["cb"] or root_nd["dflt"]) and root_ran != len(late) - l0 and not EFFECTS_OFF(o2):
                    out[id(c)].bad("late-effect", "an effect added after the first evaluation ran %d times while the dataset's body ran %d times" % (
                        len(late) - l0, root_ran))
    return [(c, out[id(c)]) for c in cases]


def EFFECTS_OFF(o):
    try:
        return bool(o["LABREA"]["EFFECTS"]["DISABLED"])
    except Exception:  # noqa
        return False


def _with_unmentioned(o, mentions):
    o2 = copy.deepcopy(o)
    k = "UNMENTIONED"
    while k in mentions:
        k += "_"
    o2[k] = {"anything": [1, 2, 3]}
    if "Z" not in mentions and not any(m.startswith("Z.") for m in mentions):
        o2["Z"] = "changed"
    return o2


def _cached_body_ids(nodes):
    """ids of dataset nodes that memoise (a real cache, not NoCache)."""
    out = set()
    for i, nd in enumerate(nodes, start=1):
        if nd["k"] == "ds" and nd.get("cache", "mem") == "mem":
            out.add(i)
    return out


def _check_effects(res, log, nodes, outcome=None):
    """Each effect entry must follow (body [, callback]) of its dataset, with that dataset's VALUE: what its
    callback returned (the value the evaluation returns and the cache stores), not the raw body result."""
    last_cb = {}
    for e in log:
        if e[0] == "callback":
            last_cb[e[3]] = (e[1], e[2])
        if e[0] == "effect" and e[1] not in ("ep", "le") and e[3]:
            d = e[3]
            nd = nodes[d - 1]
            if nd["k"] == "ds" and nd["cb"] and d in last_cb:
                name, args = last_cb[d]
                expv = None if name == "none" else ("T", name, tuple(args))
                if not strict_eq(e[2][0], expv):
                    res.bad("effect-value", "effect %s of dataset node %s received %s; the dataset's value (after its callback) is %s" % (
                        e[1], d, show(e[2][0]), show(expv)))
            if d == len(nodes) and outcome is not None and outcome["ok"] and not outcome.get("lazy") and not strict_eq(e[2][0], outcome["v"]):
                res.bad("effect-value", "effect %s of the evaluated dataset received %s; the evaluation returned %s" % (
                    e[1], show(e[2][0]), show(outcome["v"])))
    # detailed order check: effects of dataset d appear only after a body run of d in this log
    seen_body = set()
    for e in log:
        if e[0] in ("body", "callback"):
            seen_body.add(e[3])
        if e[0] == "effect":
            d = e[3]
            if d not in seen_body:
                res.bad("effect-without-body", "effect %s of dataset node %s ran without its body having run" % (e[1], d))


# -- C06 ---------------------------------------------------------------------------------------
def judge_c06(case, lab):
    """Laziness: construction runs nothing; every callable that runs during evaluate / validate /
    keys / explain belongs to a node the reference evaluation visits (selected path only)."""
    res = Result()
    a = case["a"]
    o = dec(a["o"])
    visited = set(a["visited"])
    g = _fresh(case, lab)
    if g.log:
        res.bad("construction-runs", "building the graph ran %s" % [(e[0], e[1]) for e in g.log][:4])
    has_callables = any(nd["k"] in ("fnapp", "ds", "apply", "bind", "pred") for nd in case["nodes"])
    res.nontrivial = has_callables and len(visited) < len(case["nodes"])
    for what in ("evaluate", "validate", "keys", "explain"):
        if what != "evaluate" and not a["eval"]["ok"]:
            # when the reference evaluation fails early, validate / keys / explain may legitimately
            # look at selectors beyond the point of failure (e.g. Map.explain's static fallback)
            continue
        gg = _fresh(case, lab)
        fn = getattr(gg.root, what)
        observe.call(lambda: fn(copy.deepcopy(o)), lab)
        extra = [(e[0], e[1], e[3]) for e in gg.log if e[3] and e[3] not in visited]
        if extra:
            res.bad("runs-unselected-" + what, "%s ran callables of nodes %s that the selected path does not contain (visited: %s)" % (
                what, sorted({e[2] for e in extra}), sorted(visited)))
    return res


# -- C12 ---------------------------------------------------------------------------------------
EXC_KINDS = ("user", "key", "runtime", "evalerr")


def judge_c12_group(cases, lab):
    from labrea.exceptions import EvaluationError

    out = {id(c): Result() for c in cases}
    if not cases:
        return []
    stateful = _stateful(cases[0])
    for kind in EXC_KINDS:
        fresh = []
        for c in cases:
            res = out[id(c)]
            a = c["a"]
            o = dec(a["o"])
            g = _fresh(c, lab, style={"exc": kind})
            got = observe.call(lambda: g.root.evaluate(copy.deepcopy(o)), lab, raised=g.raised)
            fresh.append((o, got))
            exp = a["eval"]
            if exp["ok"] or exp["cls"] == "IllTyped":
                if not exp["ok"]:
                    continue
                if not got["ok"]:
                    res.bad("unexpected-failure[%s]" % kind, "the specification evaluates to a value, got %s" % observe.describe(got))
                continue
            res.nontrivial = True
            if got["ok"]:
                res.bad("failure-lost[%s]" % kind, "expected failure %s, got value %s" % (exp["cls"], show(got["v"])))
                continue
            chain = got["chain"]
            if not got["is_evaluation_error"] and not got.get("while_forcing"):
                res.bad("not-evaluation-error[%s]" % kind, "evaluate raised %s, not an EvaluationError" % got["boundary"])
                continue
            if chain[0].source is not g.root and not got.get("while_forcing"):
                res.bad("source[%s]" % kind, "EvaluationError.source is %r, not the object evaluate() was called on" % (chain[0].source,))
            # which of several simultaneous causes is met first is not fixed (a cache computes its
            # key -- and meets a missing option -- before it evaluates): the failure must be one
            # the specification knows for this call (evaluate's, or keys()/validate()'s)
            alts = [x for x in (exp, a["keys"], a["validate"]) if not x["ok"]]
            if not any(observe.same_failure(got, exp_failure(x)) for x in alts):
                res.bad("cause-chain[%s]" % kind, "expected failure %s, got %s" % (
                    [(x["cls"], sorted(keyset(x.get("keys", []))) or x.get("x", "")) for x in alts], observe.describe(got)))
            for e in chain:
                if isinstance(e, EvaluationError) and not isinstance(getattr(e, "source", None), lab.types.Evaluatable):
                    res.bad("chain-source[%s]" % kind, "an EvaluationError on the chain has source %r" % (getattr(e, "source", None),))
        if any(f[1].get("lazy") for f in fresh):
            continue
        if not stateful and kind != EXC_KINDS[0]:
            continue      # (graphs without a cache: one exception kind is enough for the history clause)
        # a failed evaluation stores nothing -- in a cache or anywhere else on the objects: histories on one long-lived instance
        for order in _orders(len(cases), canon_nodes(cases[0]) + kind):
            g = _fresh(cases[0], lab, style={"exc": kind})
            hist = []
            for i in order:
                o, ref = fresh[i]
                got = observe.call(lambda: g.root.evaluate(copy.deepcopy(o)), lab, raised=g.raised)
                if not same_outcome(got, ref):
                    tag = "[coalesce-swallow] " if any(c["a"]["swallows"] for c in cases) else _blind_tag(cases)
                    out[id(cases[i])].bad("later-evaluation[%s]" % kind, "%safter %s on the same graph evaluate gives %s; a fresh copy gives %s" % (
                        tag, hist[-4:], observe.describe(got), observe.describe(ref)))
                hist.append(o)
    return [(c, out[id(c)]) for c in cases]


# -- C16 ---------------------------------------------------------------------------------------
CACHE_SW = ("on", "DISABLED", "DISABLE", "ctx", "nocache")
EFFECT_SW = ("on", "option", "perds")
LOG_SW = ("on", "option", "ctx")
ALL_SW = [(c, e, l) for c in CACHE_SW for e in EFFECT_SW for l in LOG_SW]


class _LogCapture:
    def __init__(self):
        import logging

        self.records = []
        cap = self

        class H(logging.Handler):
            def emit(self, record):
                cap.records.append((record.levelno, record.name, record.getMessage()))

        self.h = H(level=0)
        self.logging = logging

    def __enter__(self):
        root = self.logging.getLogger()
        self._lvl = root.level
        root.setLevel(0)
        root.addHandler(self.h)
        return self

    def __exit__(self, *a):
        root = self.logging.getLogger()
        root.removeHandler(self.h)
        root.setLevel(self._lvl)


def _eval_with(g, o, sw, lab):
    """One evaluation of g.root under o with the switch setting sw applied to THIS evaluation.
    Returns (outcome, new log entries, emitted logging records)."""
    import contextlib

    import labrea.cache
    import labrea.logging

    cache, eff, log = sw
    o2 = copy.deepcopy(o)
    lab_opts = {}
    if cache in ("DISABLED", "DISABLE"):
        lab_opts.setdefault("CACHE", {})[cache] = True
    if eff == "option":
        lab_opts.setdefault("EFFECTS", {})["DISABLED"] = True
    if log == "option":
        lab_opts.setdefault("LOGGING", {})["DISABLED"] = True
    if lab_opts:
        o2["LABREA"] = lab_opts
    datasets = [g.obj[i] for i, nd in enumerate(g.nodes, start=1) if nd["k"] in ("ds", "dsof")]
    saved = []
    # a pass-through handler counts the evaluations of Logged nodes: Logged sits inside cached(), so
    # each one is a dataset evaluation that was not served from its cache
    try:
        from labrea.logging import Logged
    except ImportError:  # the wrapper class was renamed / removed: the Logged-based count is then not taken
        Logged = None
    from labrea.runtime import current_runtime, handle
    from labrea.types import EvaluateRequest

    misses = []
    inner = current_runtime().handlers.get(EvaluateRequest)

    def passthrough(request):
        if Logged is not None and isinstance(request.evaluatable, Logged):
            misses.append(1)
        return inner(request)

    with contextlib.ExitStack() as st:
        st.enter_context(handle(EvaluateRequest, passthrough))
        if cache == "ctx":
            st.enter_context(labrea.cache.disabled())
        if log == "ctx":
            st.enter_context(labrea.logging.disabled())
        if cache == "nocache":
            from labrea.cache import NoCache

            for d in datasets:
                saved.append((d, d.cache))
                d.set_cache(NoCache())
        if eff == "perds":
            for d in datasets:
                d.disable_effects()
        n0 = len(g.log)
        try:
            with _LogCapture() as cap:
                out = observe.call(lambda: g.root.evaluate(o2), lab)
        finally:
            for d, c in saved:
                d.set_cache(c)
            if eff == "perds":
                for d in datasets:
                    d.enable_effects()
    _eval_with.all_records = list(cap.records)
    return out, list(g.log[n0:]), [r for r in cap.records if r[2].startswith("Labrea: Evaluating")], \
        (len(misses) if Logged is not None else None)


def _ds_runs(entries, ids=None):
    return [e for e in entries if e[0] in ("callback", "body") and e[3] and (ids is None or e[3] in ids)]


def judge_logged_group(cases, lab):
    """Graphs with Logged(...) wrappers (family logging): which messages an evaluation emits (the
    specification's MustLog / MayLog), when (before / after the wrapped evaluation), that every
    emission is a LogRequest, and that disabling logging silences them without changing values."""
    import contextlib
    import logging as pylogging

    import labrea.logging

    out = []
    for c in cases:
        res = Result()
        out.append((c, res))
        a = c["a"]
        o = dec(a["o"])
        nodes = c["nodes"]
        lazyish = any(nd["k"] == "map" or (nd["k"] == "coll" and nd["c"] == "iter") for nd in nodes)

        def run(mode):
            g = _fresh(c, lab)
            o2 = copy.deepcopy(o)
            if mode == "option":
                o2["LABREA"] = {"LOGGING": {"DISABLED": True}}
            seen = []
            events = []
            cap = _LogCapture()
            orig_emit = cap.h.emit

            def emit(record, _g=g):
                orig_emit(record)
                if record.name == "verif.logged":
                    _g.log.append(("log", record.getMessage(), (), 0))

            cap.h.emit = emit
            with contextlib.ExitStack() as st:
                if mode == "ctx":
                    st.enter_context(labrea.logging.disabled())
                with cap:
                    r = _with_passthrough(["log"], seen, lambda: observe.call(lambda: g.root.evaluate(o2), lab)) \
                        if mode == "on" else observe.call(lambda: g.root.evaluate(o2), lab)
            events = list(g.log)
            recs = [x for x in cap.records if x[1] == "verif.logged"]
            return r, recs, seen, events

        ref, recs, seen, events = run("on")
        if ref.get("lazy"):
            continue
        res.nontrivial = any(nd["k"] == "logged" for nd in nodes)
        _cmp_outcome(res, "value", ref, a["eval"])
        emitted = [m for _, _, m in recs]
        may = {"L%d" % n for n in a["maylog"]}
        must = {"L%d" % n for n in a["mustlog"]}
        if not set(emitted) <= may:
            res.bad("log-unexpected", "messages %s were emitted; the evaluation reaches only the Logged nodes %s" % (
                sorted(set(emitted) - may), sorted(may)))
        silent = {"L%d" % n for n in a["nolog"]} & set(emitted)
        if silent:
            res.bad("log-after-failure", "log_first=False and the wrapped evaluation failed, yet %s was emitted" % sorted(silent))
        if not lazyish and not must <= set(emitted):
            res.bad("log-missing", "the evaluation reaches Logged nodes %s but only %s were emitted" % (sorted(must), sorted(set(emitted))))
        if any(lv != pylogging.INFO for lv, _, _ in recs):
            res.bad("log-level", "records %s are not at the level given to Logged" % recs[:3])
        reqs = [r.msg for n, r in seen if getattr(r, "name", None) == "verif.logged"]
        if sorted(reqs) != sorted(emitted):
            res.bad("log-is-request", "emitted %s but the pass-through LogRequest handler observed %s" % (sorted(emitted), sorted(reqs)))
        # order: before / after the evaluation of the wrapped node (only where the wrapped node is used once
        # and owns harness callables)
        for i, nd in enumerate(nodes, start=1):
            if nd["k"] != "logged":
                continue
            j = nd["inner"]
            uses = sum(1 for other in nodes for key in ("d", "dom", "arg", "src", "other", "dflt", "inner", "fp", "disp") if other.get(key) == j) \
                + sum(1 for other in nodes for key in ("ms", "args") if j in other.get(key, [])) \
                + sum(1 for other in nodes for key in ("lk", "cases") for e in other.get(key, []) if j in (e.get("n"), e.get("c")))
            if uses != 1:
                continue
            pos_log = [k for k, e in enumerate(events) if e[0] == "log" and e[1] == "L%d" % i]
            pos_own = [k for k, e in enumerate(events) if e[0] != "log" and e[3] == j]
            if not pos_log or not pos_own:
                continue
            if nd["first"] and min(pos_own) < min(pos_log):
                res.bad("log-order", "Logged node %d (log_first) emitted after its wrapped node had started to run" % i)
            if not nd["first"] and min(pos_log) < min(pos_own):
                res.bad("log-order", "Logged node %d (log_first=False) emitted before its wrapped node ran" % i)
        for mode in ("option", "ctx"):
            r2, recs2, _, _ = run(mode)
            if not same_outcome(r2, ref):
                res.bad("value[logging=%s]" % mode, "with logging disabled the evaluation gives %s, otherwise %s" % (
                    observe.describe(r2), observe.describe(ref)))
            if recs2:
                res.bad("logging-off[logging=%s]" % mode, "%d records emitted although logging is disabled: %s" % (len(recs2), recs2[:3]))
    return out


def _recording_cache(lab):
    """A user-written backend that implements only get / set (exists is inherited from Cache) and records
    every access."""
    from labrea.cache import Cache, CacheGetFailure

    class Recording(Cache):
        def __init__(self):
            self.store, self.calls = {}, []

        def get(self, evaluatable, options):
            self.calls.append("get")
            try:
                return self.store[evaluatable.fingerprint(options)]
            except KeyError:
                raise CacheGetFailure(evaluatable, options, self)

        def set(self, evaluatable, options, value):
            self.calls.append("set")
            self.store[evaluatable.fingerprint(options)] = value

    return Recording()


def _c16_nocache_derivative(res, case, o, lab):
    """`nocache` means every evaluation recomputes -- of the dataset and of every derivative made from it."""
    nodes = case["nodes"]
    root = nodes[-1]
    if root["k"] != "ds" or root.get("cache", "mem") != "none" or not (root["cb"] or (root["dflt"] and not root["disp"])):
        return
    rid = len(nodes)
    g = _fresh(case, lab)
    for name, target in (("the dataset", g.root), ("with_options()", g.root.with_options({"VERIF_UNUSED": 1})),
                         ("with_default_options()", g.root.with_default_options({"VERIF_UNUSED": 1}))):
        counts = []
        for _ in range(2):
            n0 = len(g.log)
            r = observe.call(lambda: target.evaluate(copy.deepcopy(o)), lab)
            if not r["ok"] or r.get("lazy"):
                return
            counts.append(len([e for e in g.log[n0:] if e[0] == ("callback" if root["cb"] else "body") and e[3] == rid]))
        if counts[0] >= 1 and counts[1] < 1:
            res.bad("nocache-derivative", "%s of a nocache dataset: the second evaluation under the same options ran nothing (runs per evaluation: %s)" % (name, counts))


def _c16_backend_untouched(res, case, o, lab):
    """With caching disabled (either option spelling, or the context manager) stored entries are neither read
    nor written: a backend that records its accesses sees none during such an evaluation."""
    nodes = case["nodes"]
    if nodes[-1]["k"] != "ds" or nodes[-1].get("cache", "mem") != "mem":
        return
    g = _fresh(case, lab)
    rec = _recording_cache(lab)
    g.root.set_cache(rec)
    ref, _, _, _ = _eval_with(g, o, ("on", "on", "on"), lab)
    if not ref["ok"] or ref.get("lazy"):
        return
    if "set" not in rec.calls:
        res.bad("backend-not-used", "a dataset given a cache with set_cache() did not store its value in it: %s" % rec.calls)
        return
    for cache in ("DISABLED", "DISABLE", "ctx"):
        del rec.calls[:]
        out, _, _, _ = _eval_with(g, o, (cache, "on", "on"), lab)
        if rec.calls:
            res.bad("disabled-touches-backend[cache=%s]" % cache, "caching disabled, yet the backend was accessed: %s" % rec.calls)
        if not same_outcome(out, ref):
            res.bad("value[cache=%s]" % cache, "with a user-written backend and caching disabled: %s instead of %s" % (observe.describe(out), observe.describe(ref)))


def judge_c16_group(cases, lab):
    import logging as pylogging
    import zlib

    if cases and any(nd["k"] == "logged" for nd in cases[0]["nodes"]):
        return judge_logged_group(cases, lab)
    out = {id(c): Result() for c in cases}
    if not cases or not any(nd["k"] == "ds" for nd in cases[0]["nodes"]):
        return [(c, out[id(c)]) for c in cases]
    nodes = cases[0]["nodes"]
    # every dataset of this family has a callback, so each non-hit evaluation of a dataset logs one
    # ("callback", ..., owner) entry: that is the number of INFO records to expect
    if any(nd["k"] == "ds" and not nd["cb"] for nd in nodes):
        return [(c, out[id(c)]) for c in cases]
    cached_ids = _cached_body_ids(nodes)
    thorough = TIER[0] == "thorough"
    for c in cases:
        res = out[id(c)]
        o = dec(c["a"]["o"])
        _c16_backend_untouched(res, c, o, lab)
        _c16_nocache_derivative(res, c, o, lab)
        base_g = _fresh(c, lab)
        ref, ref_log, ref_rec, ref_miss = _eval_with(base_g, o, ("on", "on", "on"), lab)
        if ref.get("lazy"):
            continue
        res.nontrivial = True
        info = [r for r in ref_rec if r[0] == pylogging.INFO]
        if ref_miss is not None and (len(info) != ref_miss or len(info) != len(ref_rec)):
            res.bad("one-log-per-miss", "all switches off, cold caches: %d dataset evaluations not served from a cache, %d INFO records (%d in all)" % (
                ref_miss, len(info), len(ref_rec)))
        h = zlib.crc32(canon_nodes(c).encode() + repr(o).encode())
        settings = ALL_SW if thorough else [ALL_SW[(h + 7 * k) % len(ALL_SW)] for k in range(4)]
        for sw in settings:
            cache, eff, log = sw
            tag = "[cache=%s effects=%s logging=%s]" % sw
            # A: cold graph, evaluation under sw
            g = _fresh(c, lab)
            a_out, a_log, a_rec, a_miss = _eval_with(g, o, sw, lab)
            if not same_outcome(a_out, ref):
                res.bad("value" + tag, "with the switches the evaluation gives %s, with all switches off %s" % (
                    observe.describe(a_out), observe.describe(ref)))
                continue
            if eff != "on" and [e for e in a_log if e[0] == "effect"]:
                res.bad("effects-off" + tag, "effects ran although disabled: %s" % [(e[1], e[3]) for e in a_log if e[0] == "effect"][:4])
            a_all = _eval_with.all_records
            if log != "on" and (a_rec or a_all):
                res.bad("logging-off" + tag, "%d log records emitted although logging is disabled: %s" % (len(a_all), a_all[:3]))
            le_nodes = {i for i, nd in enumerate(nodes, start=1) if nd["k"] == "ds" and "le" in nd.get("effs", [])}
            if le_nodes:
                le_recs = [r for r in a_all if r[2].startswith("LE")]
                if eff != "on" and le_recs:
                    res.bad("effects-off" + tag, "LogEffect records %s although effects are disabled" % le_recs[:3])
                if eff == "on" and log == "on":
                    computed = {e[3] for e in a_log if e[0] == "callback"} & le_nodes
                    logged = {int(r[2][2:]) for r in le_recs}
                    if computed != logged:
                        res.bad("log-effect" + tag, "datasets with a LogEffect that were computed: %s; LogEffect records for: %s" % (
                            sorted(computed), sorted(logged)))
                    if any(r[0] != pylogging.INFO for r in le_recs):
                        res.bad("log-effect-level" + tag, "LogEffect records not at the given level: %s" % le_recs[:3])
            if log == "on":
                info = [r for r in a_rec if r[0] == pylogging.INFO]
                computed = len([e for e in a_log if e[0] == "callback"])
                if len(info) < computed:
                    res.bad("one-log-per-miss" + tag, "%d dataset evaluations were computed (their callbacks ran) but only %d INFO records were emitted" % (
                        computed, len(info)))
                if a_miss is not None and (len(info) != a_miss or len(a_rec) != len(info)):
                    res.bad("one-log-per-miss" + tag, "%d dataset evaluations were not served from a cache, %d INFO records (%d records in all)" % (
                        a_miss, len(info), len(a_rec)))
            if not a_out["ok"]:
                continue
            # B: the same graph again, all switches off: with caching disabled in A nothing was stored
            b_out, b_log, _, _ = _eval_with(g, o, ("on", "on", "on"), lab)
            b_runs = _ds_runs(b_log, cached_ids)
            if not same_outcome(b_out, ref):
                res.bad("value-after" + tag, "the next plain evaluation gives %s instead of %s" % (observe.describe(b_out), observe.describe(ref)))
            if cache != "on" and cached_ids and nodes[-1]["k"] == "ds" and len(nodes) in cached_ids and not b_runs:
                res.bad("disabled-wrote" + tag, "an evaluation with caching disabled left an entry behind: the next enabled evaluation ran nothing")
            if cache == "on" and b_runs:
                res.bad("enabled-did-not-store" + tag, "caching on, yet the repeat ran %s" % [(e[1], e[3]) for e in b_runs][:4])
            # C: warm graph (B stored), evaluation under sw: disabled => recompute, and nothing is lost
            c_out, c_log, _, _ = _eval_with(g, o, sw, lab)
            c_runs = _ds_runs(c_log, cached_ids)
            if not same_outcome(c_out, ref):
                res.bad("value-warm" + tag, "warm caches: %s instead of %s" % (observe.describe(c_out), observe.describe(ref)))
            if cache != "on" and nodes[-1]["k"] == "ds" and len(nodes) in cached_ids and not c_runs:
                res.bad("disabled-read" + tag, "caching disabled, yet the stored entry was served (nothing ran)")
            d_out, d_log, _, _ = _eval_with(g, o, ("on", "on", "on"), lab)
            if _ds_runs(d_log, cached_ids):
                res.bad("entry-lost" + tag, "after an evaluation with the switches the stored entry is gone: %s ran again" % [(e[1], e[3]) for e in _ds_runs(d_log, cached_ids)][:4])
    return [(c, out[id(c)]) for c in cases]


# -- C19 ---------------------------------------------------------------------------------------
def attr_name(n):
    """Member "y" is declared as `_y`: a single leading underscore is an ordinary member name."""
    return "_y" if n == "y" else n


def _make_class(case, g, lab):
    root = case["nodes"][-1]
    names = root["names"]
    members = [g.obj[m] for m in root["ms"]]
    base_ns = {"__annotations__": {names[0]: object}, names[0]: members[0]}
    if len(names) >= 2:
        # the parent also declares the LAST member, reading the never-mentioned key Z; the child overrides it:
        # the overridden declaration is no member of the child (it contributes no key and no requirement)
        base_ns["__annotations__"][attr_name(names[-1])] = object
        base_ns[attr_name(names[-1])] = lab.Option("Z")
    Base = lab.datasetclass(type("Base", (), base_ns))
    n_defined = len(g.log)
    # the parent dataset class is used before the child that inherits from it is defined
    try:
        Base.explain({})
        Base.keys({})
        Base({})
    except Exception:  # noqa
        pass
    ns = {"__annotations__": {attr_name(n): object for n in names[1:]}}
    for n, m in zip(names[1:], members[1:]):
        # a constant member is given as a plain value, everything else as the evaluatable
        nd = case["nodes"][root["ms"][names.index(n)] - 1]
        ns[attr_name(n)] = dec(nd["v"]) if nd["k"] == "val" else m
    ns["__annotations__"]["konst"] = int
    ns["konst"] = 42
    n_used = len(g.log)
    C = lab.datasetclass(type("C", (Base,), ns))
    # what ran while the parent was USED is not construction; drop it from the log
    del g.log[n_defined:n_used]
    return C


def _scramble(d):
    """Modify a dictionary in place at every level (values changed, a key added)."""
    for k in list(d):
        v = d[k]
        if isinstance(v, dict):
            _scramble(v)
        elif isinstance(v, list):
            v.append("verif-appended")
        elif isinstance(v, bool) or v is None:
            d[k] = "verif-changed"
        elif isinstance(v, int):
            d[k] = v + 1000
        else:
            d[k] = "verif-changed"
    d["VERIF_ADDED"] = 1


def judge_c19_group(cases, lab):
    out = {id(c): Result() for c in cases}
    cases = [c for c in cases if c["nodes"][-1]["k"] == "coll" and c["nodes"][-1]["c"] == "dict"]
    insts = []
    if not cases:
        return []
    g = _fresh(cases[0], lab)
    try:
        cls = _make_class(cases[0], g, lab)   # ONE class per graph: instances of it are compared
    except Exception as e:  # noqa
        out[id(cases[0])].bad("class-definition", "defining the dataset class raised %s: %s" % (type(e).__name__, e))
        return [(c, out[id(c)]) for c in cases]
    if g.log:
        out[id(cases[0])].bad("construction-runs", "defining the class ran %s" % [(e[0], e[1]) for e in g.log][:3])
    for c in cases:
        res = out[id(c)]
        a = c["a"]
        o = dec(a["o"])
        names = c["nodes"][-1]["names"]
        # class-level calls = the union over the members' own calls (implementation against itself;
        # a member whose call fails makes the class-level call fail)
        member_objs = [g.obj[m] for m in c["nodes"][-1]["ms"]]
        for what in ("keys", "explain"):
            fn = getattr(cls, what)
            got = observe.call(lambda: set(fn(copy.deepcopy(o))), lab)
            parts = [observe.call(lambda mo=mo: set(getattr(mo, what)(copy.deepcopy(o))), lab) for mo in member_objs]
            if all(p_["ok"] for p_ in parts):
                union = set().union(*[p_["v"] for p_ in parts])
                if not got["ok"] or got["v"] != union:
                    res.bad("class-" + what, "class %s() = %s, union over the members = %s" % (what, observe.describe(got), sorted(union)))
            elif got["ok"]:
                res.bad("class-" + what, "class %s() succeeded with %s although a member's %s() fails" % (what, sorted(got["v"]), what))
        gotv = observe.call(lambda: cls.validate(copy.deepcopy(o)), lab)
        if gotv["ok"] != a["validate"]["ok"]:
            res.bad("class-validate", "class validate(): %s, members: %s" % (observe.describe(gotv), "ok" if a["validate"]["ok"] else a["validate"]["cls"]))
        o_live = copy.deepcopy(o)
        inst = observe.call(lambda: cls(o_live), lab, forced=False)
        exp = a["eval"]
        if not exp["ok"]:
            if inst["ok"]:
                res.bad("instantiate", "instantiation succeeded although member evaluation fails with %s" % exp["cls"])
            continue
        if not inst["ok"]:
            res.bad("instantiate", "instantiation failed: %s" % observe.describe(inst))
            continue
        res.nontrivial = True
        obj = inst["v"]
        expd = dec(exp["v"])
        for n in names:
            if not strict_eq(force(getattr(obj, attr_name(n), "<missing>")), expd[n]):
                res.bad("attribute", "attribute %s = %s, the member evaluates to %s" % (
                    attr_name(n), show(getattr(obj, attr_name(n), "<missing>")), show(expd[n])))
        if getattr(obj, "konst", None) != 42:
            res.bad("attribute", "plain member konst = %r, expected the constant 42" % (getattr(obj, "konst", None),))
        if a["keys"]["ok"]:
            r = repr(obj)
            # the instance is built from the options AS THEY WERE: changing the caller's dictionary afterwards
            # changes neither what it shows nor what it is equal to
            _scramble(o_live)
            if repr(obj) != r:
                res.bad("instance-aliases-options", "repr changed from %s to %s after the caller modified the dictionary the instance was built from" % (r, repr(obj)))
            restricted = dec(a["restrict"])
            for k in keyset(a["keys"]["ks"]):
                v = restricted
                for seg in k.split("."):
                    v = v[seg] if isinstance(v, dict) else v[int(seg)]
                leaf = k.split(".")[-1]
                if repr(leaf) not in r or repr(v) not in r:
                    res.bad("repr", "repr %s does not show key %s with its value %r" % (r, k, v))
            insts.append((c, obj, canon_val(a["restrict"]), res))
    for i in range(len(insts)):
        for j in range(i + 1, len(insts)):
            ci, oi, ri, _ = insts[i]
            cj, oj, rj, resj = insts[j]
            try:
                eq = bool(oi == oj)
            except Exception as e:  # noqa
                resj.bad("equality", "== raised %s" % type(e).__name__)
                continue
            if eq != (ri == rj):
                resj.bad("equality", "instances built from %s and %s compare %s; their options restricted to the reported keys are %s" % (
                    dec(ci["a"]["o"]), dec(cj["a"]["o"]), "equal" if eq else "different", "equal" if ri == rj else "different"))
    return [(c, out[id(c)]) for c in cases]


# -- C20 ---------------------------------------------------------------------------------------
_C20_PENDING = []


def _crepr(v):
    """repr() that does not depend on the process (set iteration order follows the hash seed)."""
    if isinstance(v, (set, frozenset)):
        return "{" + ", ".join(sorted(_crepr(x) for x in v)) + "}"
    if isinstance(v, list):
        return "[" + ", ".join(_crepr(x) for x in v) + "]"
    if isinstance(v, tuple):
        return "(" + ", ".join(_crepr(x) for x in v) + ("," if len(v) == 1 else "") + ")"
    if isinstance(v, dict):
        return "{" + ", ".join("%s: %s" % (_crepr(k), _crepr(x)) for k, x in v.items()) + "}"
    return repr(v)


def _plain(out):
    """Outcome in the process-independent form the child interpreter reports."""
    if out["ok"]:
        return {"ok": True, "v": _crepr(out["v"])}
    if out.get("cls") == "KeyNotFound":
        return {"ok": False, "cls": "KeyNotFound", "key": out.get("key")}
    return {"ok": False, "cls": out.get("cls")}


def judge_c20_group(cases, lab):
    import pickle

    out = {id(c): Result() for c in cases}
    if not cases or not any(nd["k"] in ("ds", "dsof") for nd in cases[0]["nodes"]):
        return [(c, out[id(c)]) for c in cases]
    if any(c["a"].get("keyblind") for c in cases):
        # staleness after a recovered failure (finding class recovered-failure) is C01's business, not pickling's
        return [(c, out[id(c)]) for c in cases]
    style = {"picklable": True}
    dicts = [dec(c["a"]["o"]) for c in cases]
    ref = []
    for c, o in zip(cases, dicts):
        g = _fresh(c, lab, style=style)
        e = observe.call(lambda: g.root.evaluate(copy.deepcopy(o)), lab)
        k = observe.call(lambda: sorted(g.root.keys(copy.deepcopy(o))), lab)
        ref.append((e, k))
        out[id(c)].nontrivial = True
        _cmp_outcome(out[id(c)], "original-vs-spec", e, c["a"]["eval"])
    if any(e.get("lazy") for e, k in ref):
        return [(c, out[id(c)]) for c in cases]
    first = out[id(cases[0])]
    for proto in range(pickle.HIGHEST_PROTOCOL + 1):
        g = _fresh(cases[0], lab, style=style)
        if proto % 2 == 1:  # warm cache: the stored entries travel with the pickle
            observe.call(lambda: g.root.evaluate(copy.deepcopy(dicts[0])), lab)
        try:
            blob = pickle.dumps(g.root, protocol=proto)
            cp = pickle.loads(blob)
        except Exception as e:  # noqa
            first.bad("pickle-error", "protocol %d: %s: %s" % (proto, type(e).__name__, str(e)[:200]))
            continue
        for c, o, (e0, k0) in zip(cases, dicts, ref):
            e1 = observe.call(lambda: cp.evaluate(copy.deepcopy(o)), lab)
            k1 = observe.call(lambda: sorted(cp.keys(copy.deepcopy(o))), lab)
            if not same_outcome(e1, e0):
                out[id(c)].bad("copy-evaluate", "protocol %d: the unpickled copy gives %s, the original %s" % (
                    proto, observe.describe(e1), observe.describe(e0)))
            if not same_outcome(k1, k0):
                out[id(c)].bad("copy-keys", "protocol %d: keys() of the copy %s, of the original %s" % (
                    proto, observe.describe(k1), observe.describe(k0)))
        # the copy stays usable: register a further overload and evaluate through it
        root_nd = cases[0]["nodes"][-1]
        if root_nd["k"] == "ds" and root_nd["disp"] and proto in (0, pickle.HIGHEST_PROTOCOL):
            from . import picklelib

            try:
                cp.register("verif-late-alias", lab.dataset(picklelib.late_impl))
                cp.evaluate(copy.deepcopy(dicts[-1]))
            except AttributeError as e:
                first.bad("copy-register", "protocol %d: registering on the unpickled copy failed: %s" % (proto, e))
            except Exception:  # noqa  (evaluation may legitimately fail for these options)
                pass
        if proto == pickle.HIGHEST_PROTOCOL:
            # a warm copy for the fresh interpreter (started with another hash seed): what was stored before
            # pickling is served there exactly as the warm original serves it here -- same value, same body runs
            warm = None
            if ref[0][0]["ok"]:
                from . import picklelib

                gw = _fresh(cases[0], lab, style=style)
                observe.call(lambda: gw.root.evaluate(copy.deepcopy(dicts[0])), lab)
                try:
                    wblob = pickle.dumps(gw.root, protocol=proto)
                    n0 = len(picklelib.BODY_LOG)
                    again = observe.call(lambda: gw.root.evaluate(copy.deepcopy(dicts[0])), lab)
                    warm = (wblob, len(picklelib.BODY_LOG) - n0, _plain(again))
                except Exception:  # noqa  (reported by the protocol loop above)
                    warm = None
            _C20_PENDING.append((cases, blob, dicts, [(_plain(e), _plain(k)) for e, k in ref], out, warm))
    _c20_effects(cases, dicts, first, lab, style)
    return [(c, out[id(c)]) for c in cases]


def _c20_effects(cases, dicts, res, lab, style):
    """Effects survive the round trip like everything else: a copy runs its effects as often as the original,
    and a dataset whose effects were switched off before pickling keeps them switched off."""
    import pickle

    from . import picklelib

    nodes = cases[0]["nodes"]
    if not any(nd["k"] == "ds" and nd.get("effs") for nd in nodes):
        return

    def run(root):
        del picklelib.EFFECT_LOG[:]
        for o in dicts:
            observe.call(lambda: root.evaluate(copy.deepcopy(o)), lab)
        return len(picklelib.EFFECT_LOG)

    for disabled in (False, True):
        g0, g1 = _fresh(cases[0], lab, style=style), _fresh(cases[0], lab, style=style)
        if disabled:
            for g in (g0, g1):
                for i, nd in enumerate(nodes, start=1):
                    if nd["k"] == "ds":
                        g.obj[i].disable_effects()
        try:
            cp = pickle.loads(pickle.dumps(g1.root))
        except Exception:  # noqa  (reported elsewhere)
            return
        n_orig, n_copy = run(g0.root), run(cp)
        if n_orig != n_copy:
            res.bad("copy-effects", "over the same dictionaries the original ran %d effects, its pickled copy %d (%s)" % (
                n_orig, n_copy, "effects had been disabled with disable_effects() before pickling" if disabled else "effects enabled"))


def c20_fixed_probes(prop, tier, sc, rep):
    """The two definition forms of the statement on module-level datasets (harness/picklelib.py)."""
    import pickle

    from .common import import_labrea

    lab = import_labrea()
    from . import picklelib

    n = 0
    for name in ("explicit", "decorated"):
        ds = getattr(picklelib, name)
        for proto in range(pickle.HIGHEST_PROTOCOL + 1):
            n += 1
            try:
                cp = pickle.loads(pickle.dumps(ds, protocol=proto))
                a, b = cp({"A": 3}), ds({"A": 3})
                if a != b:
                    rep.violation({"probe": name, "what": "value differs"}, {"kind": "pickle-probe", "name": name, "proto": proto})
            except Exception as e:  # noqa
                sig = {"class": "decorator-form-unpicklable"} if name == "decorated" and "not the same object" in str(e) \
                    else {"probe": name, "error": type(e).__name__}
                rep.violation(sig, {"kind": "pickle-probe", "name": name, "proto": proto, "error": "%s: %s" % (type(e).__name__, e)})
    # outside the families (their graphs are acyclic): an overload implemented on a derivative of the dataset it is
    # registered on.  The copy must behave like the original under every dispatch value.
    src = picklelib.cyc_src
    for proto in range(pickle.HIGHEST_PROTOCOL + 1):
        n += 1
        try:
            cp = pickle.loads(pickle.dumps(src, protocol=proto))
        except Exception as e:  # noqa
            rep.violation({"probe": "cyclic-overload", "error": type(e).__name__},
                          {"kind": "pickle-probe", "name": "cyc_src", "proto": proto, "error": "%s: %s" % (type(e).__name__, e)})
            continue
        for o in ({"SOURCE": "smoothed"}, {"SOURCE": "raw"}, {}, {"SOURCE": "other"}):
            a, b = observe.call(lambda: cp.evaluate(dict(o)), lab), observe.call(lambda: src.evaluate(dict(o)), lab)
            if not same_outcome(a, b):
                rep.violation({"probe": "cyclic-overload", "o": o},
                              {"kind": "pickle-probe", "name": "cyc_src", "proto": proto,
                               "error": "under %s the copy gives %s, the original %s" % (o, observe.describe(a), observe.describe(b))})
                break
    return 0, 0, n, 3


def recovered_failure_probes(prop, tier, sc, rep):
    """The listed finding class `recovered-failure`, demonstrated on hand-written real objects in every run
    (C03: keys() not sufficient; C01: a cached consumer serves a stale value).  Each probe that still
    misbehaves is reported under the class signature; a repaired library makes them silent."""
    from .common import import_labrea

    lab = import_labrea()

    def switch_probe():
        A = lab.Option("A")
        B = lab.Option("B", default=A, domain=["x", 1])
        return lab.Switch(B, {1: lab.Value("branch")}, A), {"A": 1, "B": 2}, {"A": 1}

    def coalesce_probe():
        m1 = lab.Option("A", default=9, domain=[1, 9])
        return lab.Coalesce(m1, lab.Value(5)), {"A": 2}, {}

    n = 0
    for name, mk in (("switch-default-after-out-of-domain-dispatch", switch_probe), ("coalesce-skips-out-of-domain-member", coalesce_probe)):
        n += 1
        x, o1, o2 = mk()
        if prop == "C03":
            K = set(x.keys(copy.deepcopy(o1)))
            full = observe.call(lambda: x.evaluate(copy.deepcopy(o1)), lab)
            restr = observe.call(lambda: x.evaluate(restrict(o1, K)), lab)
            if not same_outcome(full, restr):
                rep.violation({"class": "recovered-failure-keys"},
                              {"kind": "probe", "name": name, "detail": "keys(%s) = %s; evaluate gives %s on the full and %s on the restricted options" % (
                                  o1, sorted(K), observe.describe(full), observe.describe(restr))})
        else:
            c = lab.cached(x)
            observe.call(lambda: c.evaluate(copy.deepcopy(o1)), lab)
            got = observe.call(lambda: c.evaluate(copy.deepcopy(o2)), lab)
            fresh = observe.call(lambda: lab.cached(mk()[0]).evaluate(copy.deepcopy(o2)), lab)
            if not same_outcome(got, fresh):
                rep.violation({"class": "recovered-failure-stale-entry"},
                              {"kind": "probe", "name": name, "detail": "after %s the cached graph gives %s for %s; a fresh one %s" % (
                                  o1, observe.describe(got), o2, observe.describe(fresh))})
    return 0, 0, n, n


_C03_PENDING = []


def _finish_c03():
    """Fingerprint bytes must not depend on the process: recompute a sample under other hash seeds."""
    global _C03_PENDING
    import json
    import os
    import shutil
    import subprocess
    import sys
    import tempfile

    from .common import VERIF

    pending, _C03_PENDING = _C03_PENDING, []
    if not pending:
        return
    d = tempfile.mkdtemp(prefix="labrea-verif-c03-")
    try:
        inp = os.path.join(d, "in.json")
        json.dump([{"nodes": c["nodes"], "tabs": c["tabs"], "o": c["a"]["o"]} for c, fp, res in pending], open(inp, "w"))
        for seed in ("1", "4242", "random"):
            outp = os.path.join(d, "out-%s.json" % seed)
            env = dict(os.environ, PYTHONHASHSEED=seed)
            r = subprocess.run([sys.executable, "-m", "harness.fp_child", inp, outp], cwd=VERIF, env=env,
                               capture_output=True, text=True, timeout=300)
            if r.returncode != 0:
                pending[0][2].bad("fp-child", "fingerprint child failed: %s" % r.stderr[-300:])
                return
            for (c, fp, res), got in zip(pending, json.load(open(outp))):
                if got != fp:
                    res.bad("fp-hash-seed", "fingerprint %s in this process (PYTHONHASHSEED=0) but %s in a process started with PYTHONHASHSEED=%s" % (
                        bytes.fromhex(fp), bytes.fromhex(got) if not got.startswith("ERR") else got, seed))
    finally:
        shutil.rmtree(d, ignore_errors=True)


def finish_chunk(prop, lab):
    """C20: one freshly started interpreter unpickles and evaluates the graphs of this chunk.
    C03: fingerprints of a sample recomputed under other hash seeds."""
    global _C20_PENDING
    if prop == "C03":
        _finish_c03()
        return
    if prop != "C20" or not _C20_PENDING:
        return
    import json
    import os
    import pickle
    import subprocess
    import sys
    import tempfile

    from .common import VERIF

    pending, _C20_PENDING = _C20_PENDING, []
    d = tempfile.mkdtemp(prefix="labrea-verif-c20-")
    try:
        inp, outp = os.path.join(d, "in.pkl"), os.path.join(d, "out.json")
        with open(inp, "wb") as f:
            pickle.dump([(i, p_[1], p_[2], p_[5][0] if p_[5] else None) for i, p_ in enumerate(pending)], f)
        # the fresh interpreter gets another hash seed than this one: nothing stored may depend on it
        env = dict(os.environ, PYTHONHASHSEED="4242" if os.environ.get("PYTHONHASHSEED") != "4242" else "7")
        r = subprocess.run([sys.executable, "-m", "harness.pickle_child", inp, outp], cwd=VERIF, env=env,
                           capture_output=True, text=True, timeout=600)
        if r.returncode != 0:
            for cs, blob, dicts, ref, out, warm in pending:
                out[id(cs[0])].bad("fresh-process", "the child interpreter failed: %s" % r.stderr[-300:])
            return
        for item in json.load(open(outp)):
            cs, blob, dicts, ref, out, warm = pending[item["id"]]
            if warm is not None and "warm_error" not in item and "warm_runs" in item:
                if item["warm_eval"] != warm[2]:
                    out[id(cs[0])].bad("fresh-process-warm", "a copy pickled with a warm cache gives %s in a fresh interpreter, the warm original %s" % (item["warm_eval"], warm[2]))
                elif item["warm_runs"] != warm[1]:
                    out[id(cs[0])].bad("fresh-process-warm", "asked again for what was stored before pickling, the copy ran %d bodies in a fresh interpreter (other hash seed); the warm original runs %d" % (
                        item["warm_runs"], warm[1]))
            if "load_error" in item:
                out[id(cs[0])].bad("fresh-process-load", "unpickling in a fresh interpreter failed: %s" % item["load_error"])
                continue
            for c, (e0, k0), got in zip(cs, ref, item["res"]):
                if got["eval"] != e0:
                    out[id(c)].bad("fresh-process-evaluate", "in a fresh interpreter the copy gives %s, the original %s" % (got["eval"], e0))
                if got["keys"] != k0:
                    out[id(c)].bad("fresh-process-keys", "in a fresh interpreter keys() = %s, original %s" % (got["keys"], k0))
    finally:
        import shutil

        shutil.rmtree(d, ignore_errors=True)


# -- C18 ---------------------------------------------------------------------------------------
def _request_types():
    from labrea.cache import CacheExistsRequest, CacheGetRequest, CacheSetRequest
    from labrea.logging import LogRequest
    from labrea.type_validation import TypeValidationRequest
    from labrea.types import EvaluateRequest, ExplainRequest, KeysRequest, ValidateRequest

    return {"evaluate": EvaluateRequest, "validate": ValidateRequest, "keys": KeysRequest, "explain": ExplainRequest,
            "cache_get": CacheGetRequest, "cache_set": CacheSetRequest, "cache_exists": CacheExistsRequest,
            "log": LogRequest, "type_validation": TypeValidationRequest}


def _with_passthrough(names, seen, fn):
    """Run fn() with recording pass-through handlers for the named request types."""
    from labrea.runtime import current_runtime, handle

    RT = _request_types()
    base = current_runtime().handlers
    handlers = {}
    for n in names:
        R = RT[n]
        inner = base[R]

        def h(request, _inner=inner, _n=n):
            seen.append((_n, request))
            return _inner(request)

        handlers[R] = h
    with handle(handlers):
        return fn()


def judge_c18(case, lab):
    res = Result()
    a = case["a"]
    o = dec(a["o"])
    visited = set(a["visitedn"])
    RT = _request_types()
    ops = {"evaluate": lambda g: g.root.evaluate(copy.deepcopy(o)), "validate": lambda g: g.root.validate(copy.deepcopy(o)),
           "keys": lambda g: set(g.root.keys(copy.deepcopy(o))), "explain": lambda g: set(g.root.explain(copy.deepcopy(o)))}
    plain = {}
    for op, fn in ops.items():
        g = _fresh(case, lab)
        plain[op] = observe.call(lambda: fn(g), lab)
    if plain["evaluate"].get("lazy"):
        return res
    res.nontrivial = len(case["nodes"]) > 1
    # (1) every request type alone, and all together: results unchanged
    for names in [[n] for n in RT] + [list(RT)]:
        for op, fn in ops.items():
            g = _fresh(case, lab)
            seen = []
            got = _with_passthrough(names, seen, lambda: observe.call(lambda: fn(g), lab))
            if not same_outcome(got, plain[op]):
                res.bad("passthrough-changes-result", "%s with pass-through handlers for %s gives %s, without %s" % (
                    op, names if len(names) == 1 else "all request types", observe.describe(got), observe.describe(plain[op])))
            if len(names) > 1 or names[0] != op:
                if len(names) == 1:
                    continue
            # (2) the handler observes the operation on every object it reaches
            targets = [r for n, r in seen if n == op]
            objs = {id(getattr(r, {"evaluate": "evaluatable", "validate": "validatable", "keys": "cacheable",
                                   "explain": "explainable"}[op])) for r in targets}
            if id(g.root) not in objs:
                res.bad("request-not-issued", "%s of the root was not issued as a %s" % (op, RT[op].__name__))
            # coalesce: a member whose validation fails is never evaluated; lazy iterables (Map, Iter)
            # below the root are evaluated only if and when their consumer iterates them
            has_coalesce = any(nd["k"] == "coalesce" for nd in case["nodes"]) or any(
                nd["k"] == "map" or (nd["k"] == "coll" and nd["c"] == "iter") for nd in case["nodes"][:-1])
            if op == "evaluate" and not has_coalesce:
                missing = [n for n in visited if n in g.obj and id(g.obj[n]) not in objs and not _is_inlined(case, n)]
                if missing and plain["evaluate"]["ok"]:
                    res.bad("nested-evaluate-not-observed", "evaluate of nodes %s (on the selected path) was not observed by the handler" % sorted(missing))
            if len(names) > 1 and op == "evaluate" and plain["evaluate"]["ok"]:
                # the side requests are observed where the ROOT itself is the node that issues them
                kinds = [n for n, r in seen]
                rk = case["nodes"][-1]["k"]
                if rk in ("ds", "dsof", "cached") and kinds.count("cache_exists") < 1:
                    res.bad("cache-requests", "a cached node was evaluated but no CacheExistsRequest was observed")
                if rk in ("ds", "cached") and case["nodes"][-1].get("cache", "mem") == "mem" and kinds.count("cache_set") < 1:
                    res.bad("cache-requests", "a cold cached node was evaluated but no CacheSetRequest was observed")
                if rk == "opt" and kinds.count("type_validation") < 1:
                    res.bad("type-validation-requests", "an option was evaluated but no TypeValidationRequest was observed")
                if rk in ("ds", "dsof") and kinds.count("log") < 1:
                    res.bad("log-requests", "a dataset was evaluated (cold) but no LogRequest was observed")
    # (2b) handler installations nest: an observer installed outside still sees every operation when further
    # handlers are installed inside it in the mapping form (as labrea.cache.disabled() does) or the single form
    if plain["evaluate"]["ok"]:
        from labrea.runtime import current_runtime as _cur, handle as _handle

        import labrea.logging

        labrea.logging.disabled()      # an earlier use elsewhere (under another handler table) must not matter
        for inner_form in ("mapping", "single", "cache.disabled", "logging.disabled"):
            g = _fresh(case, lab)
            seen = []
            base_h = _cur().handlers

            def obs_eval(request, _i=base_h[RT["evaluate"]]):
                seen.append(request.evaluatable)
                return _i(request)

            def pt_keys(request, _i=base_h[RT["keys"]]):
                return _i(request)

            with _handle(RT["evaluate"], obs_eval):
                if inner_form == "mapping":
                    ctx = _handle({RT["keys"]: pt_keys})
                elif inner_form == "single":
                    ctx = _handle(RT["keys"], pt_keys)
                elif inner_form == "logging.disabled":
                    ctx = labrea.logging.disabled()
                else:
                    import labrea.cache

                    ctx = labrea.cache.disabled()
                with ctx:
                    got = observe.call(lambda: g.root.evaluate(copy.deepcopy(o)), lab)
            if not any(x is g.root for x in seen):
                res.bad("nested-handlers", "an EvaluateRequest observer installed outside a nested %s handler installation did not see the evaluation of the root" % inner_form)
            if not same_outcome(got, plain["evaluate"]):
                res.bad("nested-handlers", "under nested pass-through handlers (%s) evaluate gives %s instead of %s" % (
                    inner_form, observe.describe(got), observe.describe(plain["evaluate"])))
    # (2c) every cache lookup / store goes through a request: a backend that records its accesses is touched only
    # while a handler of one of the three cache request types is running
    if case["nodes"][-1]["k"] == "ds" and case["nodes"][-1].get("cache", "mem") == "mem" and plain["evaluate"]["ok"]:
        from labrea.cache import Cache, CacheGetFailure
        from labrea.runtime import current_runtime as _cur2, handle as _handle2

        depth = [0]
        outside = []

        class Backend(Cache):
            def __init__(self):
                self.store = {}

            def _note(self, what):
                if depth[0] == 0:
                    outside.append(what)

            def exists(self, evaluatable, options):
                self._note("exists")
                return evaluatable.fingerprint(options) in self.store

            def get(self, evaluatable, options):
                self._note("get")
                try:
                    return self.store[evaluatable.fingerprint(options)]
                except KeyError:
                    raise CacheGetFailure(evaluatable, options, self)

            def set(self, evaluatable, options, value):
                self._note("set")
                self.store[evaluatable.fingerprint(options)] = value

        g = _fresh(case, lab)
        g.root.set_cache(Backend())
        base_h = _cur2().handlers
        hs = {}
        for n in ("cache_exists", "cache_get", "cache_set"):
            def h(request, _i=base_h[RT[n]]):
                depth[0] += 1
                try:
                    return _i(request)
                finally:
                    depth[0] -= 1
            hs[RT[n]] = h
        with _handle2(hs):
            for op in ("evaluate", "evaluate", "validate", "keys", "explain", "evaluate"):
                observe.call(lambda: ops[op](g), lab)
                if outside:
                    res.bad("cache-access-without-request", "during %s() the cache backend was accessed (%s) outside every cache request" % (op, outside))
                    break
    # (3) a substituting handler for one dataset is honoured wherever it is used
    from labrea.runtime import current_runtime, handle
    from labrea.types import EvaluateRequest

    bases = {nd["base"] for nd in case["nodes"] if nd["k"] == "dsof"}
    if any(nd["k"] == "coalesce" for nd in case["nodes"]):
        # a coalesce validates a member before evaluating it; validation is not substituted, so the
        # member may be skipped -- the relation below is stated for graphs without coalesce
        return res
    if not (plain["evaluate"]["ok"] and plain["keys"]["ok"] and plain["validate"]["ok"]):
        # keys() / validate() of the dataset are not substituted: where they fail, a caching or
        # validating consumer never asks for the (substituted) value
        return res
    for d in sorted(n for n in visited if case["nodes"][n - 1]["k"] == "ds" and n not in bases and n != len(case["nodes"])):
        g = _fresh(case, lab)
        target = g.obj[d]
        inner = current_runtime().handlers[EvaluateRequest]
        sub = ("T", "SUB", (d,))

        def h(request, _inner=inner, _t=target, _s=sub):
            if request.evaluatable is _t:
                return _s
            return _inner(request)

        with handle(EvaluateRequest, h):
            got = observe.call(lambda: g.root.evaluate(copy.deepcopy(o)), lab)
        nodes2 = copy.deepcopy(case["nodes"])
        nodes2[d - 1] = {"k": "val", "v": {"t": "T", "f": "SUB", "a": [{"t": "i", "i": d}]}}
        tabs2 = [[e for e in t] for t in case["tabs"]]
        try:
            g2 = build.Built(lab, nodes2, [[] if case["nodes"][d - 1].get("tab") == i + 1 else t for i, t in enumerate(tabs2)],
                             raises=a.get("raises", ()))
        except Exception:  # noqa
            continue
        ref = observe.call(lambda: g2.root.evaluate(copy.deepcopy(o)), lab)
        if not same_outcome(got, ref):
            res.bad("substitution", "substituting dataset node %d: got %s; the graph with that node replaced by the constant gives %s" % (
                d, observe.describe(got), observe.describe(ref)))
    return res


def _is_inlined(case, n):
    """Nodes the builder hands to labrea as plain arguments (no separate object is evaluated):
    a constant / template / factory default of an Option, a container domain, the fnapp default of a dataset."""
    for nd in case["nodes"]:
        if nd["k"] == "opt" and (nd["d"] == n or nd["dom"] == n):
            k = case["nodes"][n - 1]["k"]
            if k == "val" or (k == "tmpl" and not case["nodes"][n - 1]["ps"]) or (k == "fnapp" and not case["nodes"][n - 1]["args"]):
                return True
        if nd["k"] == "ds" and nd["dflt"] == n and case["nodes"][n - 1]["k"] == "fnapp":
            return True
    return False


# -- C07 ---------------------------------------------------------------------------------------
def judge_c07(case, lab):
    """One history: overloads registered before and between calls on one long-lived graph.  Each
    call must yield the specification's value under the tables at that time, or a value this
    same dictionary already produced earlier in the history (the statement exempts stored ones)."""
    res = Result()
    a = case["a"]
    hist = list(a["hist"]) + [{"a": "Observe", "o": a["o"], "eval": a["eval"]}]
    late = [h for h in hist if h["a"] == "Register"]
    # the tables before the first call: undo the registrations made between calls, last first
    tabs0 = [list(entries) for entries in case["tabs"]]
    for h in reversed(late):
        t = case["nodes"][h["d"] - 1]["tab"] - 1
        entries = tabs0[t]
        idx = [i for i, e in enumerate(entries) if canon_val(e["v"]) == canon_val(h["alias"])]
        if h["prev"]:
            entries[idx[0]] = {"v": h["alias"], "n": h["prev"]}
        else:
            del entries[idx[0]]
    if not any(nd["k"] == "ds" and nd["disp"] for nd in case["nodes"]):
        return res
    # ... and the dispatch expressions before the first call: undo set_dispatch, last first
    nodes0 = copy.deepcopy(case["nodes"])
    for h in reversed([h for h in hist if h["a"] == "SetDispatch"]):
        nodes0[nodes0[h["d"] - 1]["disp"] - 1]["p"] = h["prev"]
    g = build.Built(lab, nodes0, tabs0, raises=a.get("raises", ()))
    if g.log:
        res.bad("construction-runs", "building / registering ran %s" % [(e[0], e[1]) for e in g.log][:4])
    res.nontrivial = bool(late) or any(len(t) for t in case["tabs"])
    if any(h["a"] == "SetDispatch" for h in hist):
        res.nontrivial = True
    seen = []  # (dict, outcome) pairs observed earlier in this history
    for i, h in enumerate(hist):
        if h["a"] == "Register":
            n0 = len(g.log)
            build.do_register(g.obj[h["d"]], dec(h["alias"]), g.obj[h["impl"]], h["impl"])
            if len(g.log) != n0:
                res.bad("register-runs", "register() ran %s" % [(e[0], e[1]) for e in g.log[n0:]][:4])
            continue
        if h["a"] == "SetDispatch":
            n0 = len(g.log)
            m = nodes0[h["d"] - 1]["disp"]
            g.obj[m] = g._build(m, dict(nodes0[m - 1], p=h["p"]))
            g.obj[h["d"]].set_dispatch(g.obj[m])
            if len(g.log) != n0:
                res.bad("set-dispatch-runs", "set_dispatch() ran %s" % [(e[0], e[1]) for e in g.log[n0:]][:4])
            continue
        o = dec(h["o"])
        got = observe.call(lambda: g.root.evaluate(copy.deepcopy(o)), lab)
        exp = h["eval"]
        if not exp["ok"] and exp["cls"] == "IllTyped":
            return Result()
        ok_now = (got["ok"] and exp["ok"] and strict_eq(got["v"], dec(exp["v"]))) or (
            not exp["ok"] and observe.same_failure(got, exp_failure(exp)))
        ok_stored = any(strict_eq(o, o2) and same_outcome(got, g2) for o2, g2 in seen if g2["ok"])
        if not (ok_now or ok_stored):
            res.bad("dispatch-selects", "call %d under %s: got %s; the specification (tables at that time) gives %s; earlier values for this dictionary: %s" % (
                i + 1, o, observe.describe(got),
                show(dec(exp["v"])) if exp["ok"] else exp["cls"],
                [observe.describe(g2) for o2, g2 in seen if strict_eq(o, o2)]))
        seen.append((o, got))
    return res


def canon_val(v):
    import json

    return json.dumps(v, sort_keys=True)


TIER = ["quick"]

JUDGES = {"C04": judge_c04, "C09": judge_c09, "C05": judge_c05, "C10": judge_c10, "C11": judge_c11,
          "C08": judge_c08, "C06": judge_c06, "C07": judge_c07, "C18": judge_c18}
GROUP_JUDGES = {"C03": judge_c03_group, "C01": judge_c01_group, "C02": judge_c02_group, "C12": judge_c12_group,
                "C16": judge_c16_group, "C19": judge_c19_group, "C20": judge_c20_group}


def ill_typed(case):
    a = case["a"]
    return any((not a[w]["ok"]) and a[w].get("cls") == "IllTyped" for w in ("eval", "validate", "keys", "explain"))


STATEFUL_PROPS = ("C01", "C02", "C12", "C16", "C18", "C20")


REUSE_PROPS = ("C04", "C05", "C09")


def _reuse(prop, pairs, lab):
    """An expression object has no memory: the SAME real graph (no cache anywhere in it) evaluated under
    every dictionary of its group, forwards and backwards, yields the specification's value for THAT
    dictionary each time -- whatever it was evaluated under before (a default, a step function or a
    resolved template remembered from an earlier call would show here)."""
    cases = [c for c, _ in pairs]
    if len(cases) < 2 or _stateful(cases[0]):
        return
    if prop == "C09" and not any(nd["k"] == "tmpl" for nd in cases[0]["nodes"]) and "{" not in repr([c["a"]["o"] for c in cases]):
        return
    res_of = {id(c): r for c, r in pairs}
    for order in (range(len(cases)), range(len(cases) - 1, -1, -1)):
        g = _fresh(cases[0], lab)
        hist = []
        for i in order:
            c = cases[i]
            o = dec(c["a"]["o"])
            got = observe.call(lambda: g.root.evaluate(copy.deepcopy(o)), lab)
            before = len(res_of[id(c)].violations)
            _cmp_outcome(res_of[id(c)], "reuse", got, c["a"]["eval"])
            if len(res_of[id(c)].violations) > before:
                cl, d = res_of[id(c)].violations[-1]
                res_of[id(c)].violations[-1] = (cl, "on an object evaluated before under %s: %s" % (hist[-3:], d))
            hist.append(o)


def judge_group(prop, cases, lab):
    cases = [c for c in cases if not ill_typed(c)]
    if prop in STATEFUL_PROPS and any(c["a"].get("cacheslazy") for c in cases):
        # a cache on the path stores a one-shot iterator (the specification's CachesLazy)
        return [(c, Result()) for c in cases]
    if prop in GROUP_JUDGES:
        return GROUP_JUDGES[prop](cases, lab)
    pairs = [(c, JUDGES[prop](c, lab)) for c in cases]
    if prop in REUSE_PROPS:
        _reuse(prop, pairs, lab)
    if prop == "C08":
        _c08_same_dict_object(pairs, lab)
    return pairs


def _c08_same_dict_object(pairs, lab):
    """One long-lived wrapper / dataset called with ONE caller dictionary object that is changed in place between
    the calls: each call sees the overlay of the dictionary's content at that time."""
    cases = [c for c, _ in pairs]
    if len(cases) < 2 or cases[0]["nodes"][-1]["k"] not in ("with", "ds", "dsof"):
        return
    if any(c["a"].get("cacheslazy") or c["a"].get("keyblind") for c in cases):
        return
    g = _fresh(cases[0], lab)
    live = {}
    for c, res in pairs:
        o = dec(c["a"]["o"])
        live.clear()
        live.update(copy.deepcopy(o))
        got = observe.call(lambda: g.root.evaluate(live), lab)
        if got.get("lazy"):
            return
        _cmp_outcome(res, "overlay-same-dict-object", got, c["a"]["eval"])


def signature(prop, clause, case, detail=""):
    """Identity of a violation.  Violations that the specification itself attributes to a listed
    finding class carry that class as their signature (one known-findings entry covers them);
    every other violation is identified by its clause, graph and dictionary."""
    if detail.startswith("[coalesce-swallow] ") and clause.startswith("later-evaluation"):
        return {"class": "coalesce-swallow-stale-entry"}
    if detail.startswith("[recovered-failure] ") and (clause.startswith("later-evaluation") or clause == "transparent"):
        return {"class": "recovered-failure-stale-entry"}
    if prop == "C03" and clause in ("sufficient-eval", "sufficient-keys") and (case["a"].get("keyblind") or case["a"].get("swallows")):
        return {"class": "recovered-failure-keys"}
    if clause in ("agree", "sufficient-eval", "sufficient-keys") and any(
            nd["k"] == "ds" and "ep" in nd.get("effs", []) for nd in case["nodes"]):
        # the dataset has an effect whose parameter is an option: labrea's keys() does not report it
        return {"class": "effect-parameter-not-keyed"}
    return {"clause": clause, "nodes": case["nodes"], "tabs": case["tabs"], "o": case["a"]["o"]}
