"""pytest plugin (loaded with -p harness.pytest_plugin, PYTHONPATH=/verif): records the cache requests the
repository's OWN tests issue, one trace per test, for spec/Trace_Requests.tla.

Default handlers are wrapped through the public registration API before any test runs; the wrappers call
the original handler and log (cache id, fingerprint, result).  Only MemoryCache backends are logged (the
trace specification states what a reliable in-memory backend does)."""
import json
import os

_EVENTS = []
_CACHES = []   # strong references: id() of a collected cache object may be reused by a later one


def _cid(cache):
    for i, c in enumerate(_CACHES):
        if c is cache:
            return i
    _CACHES.append(cache)
    return len(_CACHES) - 1
_OUT = os.environ.get("VERIF_SUITE_TRACES")


def _fp(req):
    try:
        return req.evaluatable.fingerprint(req.options).hex()
    except Exception:  # noqa
        return None


def _disabled(options):
    from labrea import Option

    try:
        return Option("LABREA.CACHE.DISABLED", Option("LABREA.CACHE.DISABLE", False))(options)
    except Exception:  # noqa
        return False


def pytest_configure(config):
    import labrea.cache as C
    from labrea.runtime import _DEFAULT_HANDLERS  # noqa: read-only lookup of the registered defaults
    from labrea.runtime import handle_by_default

    def wrap(R, name):
        inner = _DEFAULT_HANDLERS[R]

        def h(request, _inner=inner, _name=name):
            if type(request.cache) is not C.MemoryCache:
                return _inner(request)
            fp = _fp(request)
            dis = bool(_disabled(request.options))
            try:
                r = _inner(request)
            except C.CacheGetFailure:
                _EVENTS.append({"e": _name, "c": _cid(request.cache), "fp": fp, "r": "miss", "dis": dis})
                raise
            if fp is not None:
                _EVENTS.append({"e": _name, "c": _cid(request.cache), "fp": fp,
                                "r": ("True" if r else "False") if _name == "exists" else "ok", "dis": dis})
            return r

        handle_by_default(R, h)

    wrap(C.CacheExistsRequest, "exists")
    wrap(C.CacheGetRequest, "get")
    wrap(C.CacheSetRequest, "set")


def pytest_runtest_setup(item):
    _EVENTS.append({"e": "test", "c": 0, "fp": item.nodeid, "r": "", "dis": False})


def pytest_sessionfinish(session, exitstatus):
    """One trace for the whole session: module-level datasets (and their caches) outlive a test."""
    if not _OUT:
        return
    names = {}
    ev = []
    for e in _EVENTS:
        if e["e"] == "test":
            ev.append({"e": "test", "k": e["fp"], "r": "", "dis": False})
            continue
        key = "%s/%s" % (e["c"], e["fp"])
        k = names.setdefault(key, "k%d" % len(names))
        ev.append({"e": e["e"], "k": k, "r": e["r"], "dis": e["dis"]})
    with open(_OUT, "a") as f:
        f.write(json.dumps({"test": "session", "ev": ev}) + "\n")
