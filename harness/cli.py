"""bin/check: dispatches a property id to its check; exit 0 / 1 (VIOLATION) / 2 (machinery)."""
import argparse
import json
import os
import sys
import traceback

from .common import MachineryError, tier


def _dispatch(prop, t):
    if prop == "C14":
        from . import check_runtime
        return check_runtime.main_c14(t)
    if prop == "C04":
        from . import check_expr
        return check_expr.check("C04", t, ["options", "illsorted"],
            "every (graph, dictionary) CASE TLC exports for the family: all graphs of <= N nodes rooted at an Option "
            "(defaults: constant / template / factory / chained Option; domains: container / predicate / option-dependent "
            "predicate) x every dictionary over the keys the graph mentions (falsy values, templated strings, list indices, "
            "nested sections) plus one unmentioned key; evaluate()/validate() of a freshly built real graph compared with "
            "the specification's Eval/Validate; non-trivial = root is an Option",
            ["TLC + Json module trusted", "confectioner modelled as it behaves", "well-sorted dictionaries"])
    if prop == "C09":
        from . import check_expr
        return check_expr.check("C09", t, ["options", "tmplparams"],
            "same CASE export as C04 (roots: Template and Option with templated values/defaults, references to depth 3); "
            "evaluate() = the specification's transitive substitution, keys()/explain() include every key it reads; "
            "non-trivial = the graph or the dictionary contains a template",
            ["TLC + Json module trusted", "confectioner modelled as it behaves", "template parameters never contain braces"])
    if prop in ("C05", "C10", "C11", "C03", "C08", "C01", "C02", "C06", "C12", "C16", "C19", "C20", "C18"):
        from . import check_expr
        fams = {"C05": ["combinators", "maps", "cases", "logging", "mapswitch", "coalesceiter"], "C10": ["combinators", "options:light", "illsorted", "effparams", "selectors", "mapswitch", "caseseq", "coalesceiter"], "C11": ["combinators", "options:light", "illsorted", "selectors", "mapswitch", "deepsections"],
                "C03": ["combinators", "options:light", "presets:light", "effparams", "selectors", "tmplparams", "mapswitch", "deepsections", "caseseq"], "C08": ["presets", "siblings", "deepsections"],
                "C01": ["caching", "presets:light", "siblings", "deepsections"],
                "C02": ["caching", "overloads", "shadowsection"], "C06": ["combinators", "caching", "cases", "caseseq", "coalesceiter"], "C12": ["failing", "failing4", "cases", "failseq"], "C16": ["caching@quick", "logging", "logeffects"], "C19": ["classes"], "C20": ["pickling"], "C18": ["combinators:light", "caching@quick", "logging"]}[prop]
        import os
        if os.environ.get("VERIF_FAMILIES"):      # development aid: restrict a run to some families
            fams = os.environ["VERIF_FAMILIES"].split(",")
        extra = None
        if prop == "C10":
            from . import check_pipelines
            extra = check_pipelines.run
        if prop == "C20":
            from . import verdicts
            extra = verdicts.c20_fixed_probes
        if prop == "C18":
            from . import reflect
            extra = reflect.check_kinds
        if prop == "C01":
            from . import suite_traces, verdicts

            def extra(prop, tier, sc, rep):
                a = suite_traces.run(prop, tier, sc, rep)
                b = verdicts.recovered_failure_probes(prop, tier, sc, rep)
                return tuple(x + y for x, y in zip(a[:4], b[:4]))
        if prop == "C03":
            from . import verdicts
            extra = verdicts.recovered_failure_probes
        return check_expr.check(prop, t, fams, check_expr.RULES[prop], check_expr.ASSUME, extra=extra)
    if prop == "C13":
        from . import check_pipelines
        return check_pipelines.main(t)
    if prop == "C07":
        from . import check_dispatch
        return check_dispatch.main(t)
    if prop == "C17":
        from . import check_cache
        return check_cache.main(t)
    if prop == "C15":
        from . import check_threads
        return check_threads.main(t)
    raise MachineryError("no check registered for %s" % prop)


def _replay(path):
    with open(path) as f:
        doc = json.load(f)
    doc["_path"] = path
    kind = doc.get("kind")
    if kind == "runtime":
        from . import check_runtime
        return check_runtime.replay_file(doc)
    if kind == "suite-trace":
        print("replay: re-run `bin/check C01` (the trace is recorded from the repository's own test session); "
              "rejected at event %s of test %s: %s" % (doc["rejected_at"], doc["test"], doc["events"][-1:]))
        return 1
    if kind == "pickle-probe":
        import pickle
        from . import common, picklelib
        common.import_labrea()
        try:
            src = getattr(picklelib, doc["name"])
            cp = pickle.loads(pickle.dumps(src, protocol=doc["proto"]))
            for o in ({"SOURCE": "smoothed"}, {"SOURCE": "raw"}, {"A": 3}):
                try:
                    a, b = cp(dict(o)), src(dict(o))
                except Exception:  # noqa  (these probes only compare values where both evaluate)
                    continue
                if a != b:
                    print("replay: under %s the copy gives %r, the original %r" % (o, a, b))
                    print("VIOLATION property=C20 replay=%s" % doc.get("_path"))
                    return 1
            print("replay: %s now pickles and its copy behaves like it" % doc["name"])
            return 0
        except Exception as e:  # noqa
            print("replay: pickling %s fails: %s" % (doc["name"], e))
            print("VIOLATION property=C20 replay=%s" % doc.get("_path"))
            return 1
    if kind == "probe":
        print("replay: re-run `bin/check %s` (hand-written probe %s): %s" % (doc.get("property"), doc.get("name"), doc.get("detail")))
        print("VIOLATION property=%s replay=%s" % (doc.get("property"), doc.get("_path")))
        return 1
    if kind == "pipeline":
        from . import check_pipelines
        return check_pipelines.replay_file(doc)
    if kind == "interface":
        from . import check_dispatch
        return check_dispatch.replay_file(doc)
    if kind in ("cache", "cache-trace"):
        from . import check_cache
        return check_cache.replay_file(doc)
    if kind == "expr":
        from . import check_expr
        return check_expr.replay_file(doc)
    if kind in ("schedule", "rt-trace"):
        from . import check_threads
        return check_threads.replay_file(doc)
    raise MachineryError("unknown replay kind %r" % kind)


def main(argv=None):
    try:   # development aid: `kill -USR1 <pid>` prints the stack of every thread of a check that seems stuck
        import faulthandler
        import signal

        faulthandler.register(signal.SIGUSR1, all_threads=True)
    except Exception:  # noqa
        pass
    ap = argparse.ArgumentParser()
    ap.add_argument("prop", nargs="?")
    ap.add_argument("--tier", default=None)
    ap.add_argument("--replay", default=None)
    a = ap.parse_args(argv)
    if a.tier:
        os.environ["VERIF_TIER"] = a.tier
    try:
        if a.replay:
            return _replay(a.replay)
        if not a.prop:
            ap.error("property id required")
        return _dispatch(a.prop, tier())
    except MachineryError as e:
        print("MACHINERY-FAILURE: %s" % e, file=sys.stderr)
        return 2
    except Exception:
        traceback.print_exc()
        return 2


if __name__ == "__main__":
    sys.exit(main())
