"""bin/check: dispatches a property id to its check; exit 0 / 1 (VIOLATION) / 2 (machinery)."""
import argparse
import json
import os
import sys
import traceback

from .common import MachineryError, tier


def _dispatch(prop, t):
    if prop == "C14":
        from . import check_runtime
        return check_runtime.main_c14(t)
    raise MachineryError("no check registered for %s" % prop)


def _replay(path):
    with open(path) as f:
        doc = json.load(f)
    doc["_path"] = path
    kind = doc.get("kind")
    if kind == "runtime":
        from . import check_runtime
        return check_runtime.replay_file(doc)
    raise MachineryError("unknown replay kind %r" % kind)


def main(argv=None):
    ap = argparse.ArgumentParser()
    ap.add_argument("prop", nargs="?")
    ap.add_argument("--tier", default=None)
    ap.add_argument("--replay", default=None)
    a = ap.parse_args(argv)
    if a.tier:
        os.environ["VERIF_TIER"] = a.tier
    try:
        if a.replay:
            return _replay(a.replay)
        if not a.prop:
            ap.error("property id required")
        return _dispatch(a.prop, tier())
    except MachineryError as e:
        print("MACHINERY-FAILURE: %s" % e, file=sys.stderr)
        return 2
    except Exception:
        traceback.print_exc()
        return 2


if __name__ == "__main__":
    sys.exit(main())
