"""Replaying behaviours of spec/RuntimeMachine.tla on the real labrea.runtime.

Every logical thread of a behaviour is a real threading.Thread that executes one operation
at a time (operation-granularity serialisation).  `Enter` is a real `with` statement: the
thread's interpreter recurses inside the block and `Exit` leaves it, normally or by letting
an exception propagate through the block, exactly as user code would.

The only thing compared is what the specification prescribes: the tag returned by the handler
that served a request of each type (or "TypeError").  Anything else the real code does
(AttributeError from a None runtime, a different tag) is reported verbatim.
"""
import queue
import threading


class _Leave(Exception):
    pass


def _tag_handler(tag):
    def handler(request, _tag=tag):
        if getattr(request, "verif_raise", False):
            raise KeyError(_tag)       # user code in a handler may raise (here: a miss in a dict-backed store)
        return _tag

    handler.__name__ = "handler_" + tag.replace(":", "_")
    return handler


class World:
    """Fresh request classes, runtimes and threads for one behaviour."""

    def __init__(self, rt, types, init_defaults, threads):
        self.rt = rt
        self.types = list(types)
        self.cls = {ty: type("Req" + ty, (rt.Request,), {"options": {}}) for ty in types}
        # request types are looked up by their exact class: the LAST type is declared as a subclass of the FIRST
        # one's request class (a specialised request) and is nevertheless a type of its own
        if len(self.types) >= 2:
            last, first = self.types[-1], self.types[0]
            self.cls[last] = type("Req" + last, (self.cls[first],), {"options": {}})
        for ty in init_defaults:
            self.cls[ty].handle(_tag_handler("d:" + ty))
        self.R = {}
        self.workers = {t: _Worker(self, t) for t in threads}
        for w in self.workers.values():
            w.start()

    def close(self):
        for w in self.workers.values():
            w.stop()

    def probe_in(self, t):
        return self.workers[t].call(("Probe",))

    def do(self, a):
        return self.workers[a["t"]].call((a["a"], a))


class _Worker:
    def __init__(self, world, name):
        self.w = world
        self.name = name
        self.q = queue.SimpleQueue()
        self.r = queue.SimpleQueue()
        self.thread = threading.Thread(target=self._main, name="verif-" + name, daemon=True)

    def start(self):
        self.thread.start()

    def call(self, op):
        self.q.put(op)
        return self.r.get()

    def stop(self):
        self.q.put(("Stop",))
        self.thread.join(5)

    def _main(self):
        try:
            self._loop(0)
        except BaseException as e:  # pragma: no cover - harness bug
            self.r.put(("HARNESS", repr(e)))

    def _probe(self):
        out = {"__current__": self.w.rt.current_runtime()}
        for ty in self.w.types:
            try:
                out[ty] = self.w.cls[ty]().run()
            except TypeError:
                out[ty] = "TypeError"
            except BaseException as e:
                out[ty] = "EXC:" + type(e).__name__
        # the same requests, on which the serving handler raises KeyError(<its tag>)
        outx = {}
        for ty in self.w.types:
            req = self.w.cls[ty]()
            req.verif_raise = True
            try:
                outx[ty] = "RETURNED:%r" % (req.run(),)
            except TypeError:
                outx[ty] = "TypeError"
            except KeyError as e:
                outx[ty] = "KeyError<%s>" % (e.args[0] if e.args else "")
            except BaseException as e:
                outx[ty] = "EXC:" + type(e).__name__
        out["__x__"] = outx
        return out

    def _new_runtime(self, a, how):
        w = self.w
        r = a["r"]
        handlers = {w.cls[ty]: _tag_handler("h%d:%s" % (r, ty)) for ty in sorted(a["tys"])}
        if how == "Create":
            w.R[r] = w.rt.Runtime(handlers) if handlers else w.rt.Runtime()
        else:
            if how == "Derive":
                src = w.R[a["src"]].handle
            else:
                src = w.rt.handle
            if len(handlers) == 1:
                ((c, h),) = handlers.items()
                w.R[r] = src(c, h)
            else:
                w.R[r] = src(handlers)

    def _loop(self, depth):
        """Returns how the enclosing block is to be left."""
        w = self.w
        while True:
            op = self.q.get()
            kind = op[0]
            if kind == "Stop":
                # unwind every open block without replying
                raise SystemExit
            try:
                if kind == "Probe":
                    self.r.put(("ok", self._probe()))
                elif kind in ("Create", "Derive", "HandleCurrent"):
                    self._new_runtime(op[1], kind)
                    self.r.put(("ok", None))
                elif kind == "RegisterDefault":
                    ty = op[1]["ty"]
                    w.cls[ty].handle(_tag_handler("d:" + ty))
                    self.r.put(("ok", None))
                elif kind == "Inherit":
                    w.rt.inherit(w.workers[op[1]["p"]].thread)
                    self.r.put(("ok", None))
                elif kind == "Exit":
                    if depth == 0:
                        self.r.put(("HARNESS", "Exit with nothing entered"))
                    else:
                        return op[1]["how"]
                elif kind == "Enter":
                    r = w.R[op[1]["r"]]
                    entered = False
                    try:
                        with r:
                            entered = True
                            self.r.put(("ok", None))
                            how = self._loop(depth + 1)
                            if how == "exception":
                                raise _Leave()
                    except _Leave:
                        self.r.put(("ok", None))
                    except SystemExit:
                        raise
                    except BaseException as e:
                        # __enter__ or __exit__ of the real code raised
                        self.r.put(("exc", ("enter" if not entered else "exit") + ":" + type(e).__name__))
                    else:
                        self.r.put(("ok", None))
                else:
                    self.r.put(("HARNESS", "unknown op %r" % (kind,)))
            except SystemExit:
                raise
            except BaseException as e:
                self.r.put(("exc", kind + ":" + type(e).__name__))


def _identity(w, implicit, t, cur_obj, cur):
    """'Restores exactly the runtime that was current': the object current in thread t must be the
    runtime the specification names -- runtime object r, or (0) the thread's own implicit runtime,
    which is one and the same object every time the thread is outside all blocks."""
    if cur is None or cur_obj is None:
        return None
    r = cur[t]
    if r:
        if cur_obj is not w.R.get(r):
            return "current_runtime() is not runtime object %d" % r
        return None
    if any(cur_obj is x for x in w.R.values()):
        return "current_runtime() is an explicit runtime object although the thread is outside all blocks"
    # an inherited runtime (Inherit) changes what 'own' means: only compare within one base
    key = t
    if key in implicit and implicit[key] is not cur_obj:
        return "outside all blocks current_runtime() is a different object than before"
    implicit[key] = cur_obj
    return None


def replay(rt, labels, types, init_defaults, threads, final_probe=True):
    """Replay one behaviour.  Returns None if every observation equals the prescribed one,
    else a dict describing the first mismatch."""
    w = World(rt, types, init_defaults, threads)
    implicit = {}
    try:
        last_srv = None
        last_cur = None
        for i, a in enumerate(labels):
            status, val = w.do(a)
            if status == "HARNESS":
                return {"step": i, "harness": val}
            if status == "exc":
                return {"step": i, "action": a, "got": val, "expected": "no exception"}
            last_srv = a["srv"]
            last_cur = a.get("cur")
            if a["a"] == "Inherit":
                implicit.pop(a["t"], None)  # the thread's base runtime is now whatever the parent had
            if a["a"] == "Probe":
                exp = a["srv"][a["t"]]
                cur_obj = val.pop("__current__", None)
                valx = val.pop("__x__", None)
                if val != exp:
                    return {"step": i, "action": a, "got": val, "expected": exp}
                if valx is not None and "srvx" in a and valx != a["srvx"][a["t"]]:
                    return {"step": i, "action": a, "got": valx, "expected": a["srvx"][a["t"]],
                            "note": "requests on which the serving handler raises KeyError"}
                m = _identity(w, implicit, a["t"], cur_obj, last_cur)
                if m:
                    return {"step": i, "action": a, "got": m, "expected": "the runtime object the specification names"}
        if final_probe:
            for t in (sorted(threads) if last_srv is not None else ()):
                status, val = w.probe_in(t)
                cur_obj = val.pop("__current__", None) if isinstance(val, dict) else None
                if isinstance(val, dict):
                    val.pop("__x__", None)
                m = _identity(w, implicit, t, cur_obj, last_cur) if status == "ok" and val == last_srv[t] else None
                if m:
                    return {"step": len(labels), "action": {"a": "FinalProbe", "t": t}, "got": m,
                            "expected": "the runtime object the specification names"}
                if status != "ok" or val != last_srv[t]:
                    return {"step": len(labels), "action": {"a": "FinalProbe", "t": t},
                            "got": val, "expected": last_srv[t]}
        return None
    finally:
        w.close()
