"""Building real labrea objects from a node table exported by TLC (spec/Labrea.tla).

Every callable the graph needs (dataset bodies, apply functions, callbacks, effects, bind
functions, predicates) is supplied by the harness, returns an uninterpreted term
("T", name, args) and records its execution in `Graph.log`.
"""
import copy

from .codec import Pred, UserRaise, dec, force, strict_eq, tokens_to_str


class Built:
    def __init__(self, lab, nodes, tabs, raises=(), style=None):
        self.lab = lab
        self.nodes = nodes
        self.tabs = tabs
        self.raises = [(f, tuple(dec(x) for x in args)) for f, args in raises]
        self.log = []  # ("body", name, args) / ("apply", name, args) / ("effect", ...) ...
        self.obj = {}
        self.tabowner = {}
        self.style = style or {}
        self.raised = []  # the exception objects harness callables raised (identity is checked)
        Pred.make_exc = self.make_exc
        self.presets = {}  # node id -> {"q": dict, "dd": dict} the dictionaries handed to labrea
        for i, nd in enumerate(nodes, start=1):
            self.obj[i] = self._build(i, nd)
        for t, entries in enumerate(tabs, start=1):
            done = set()
            for e in entries:
                n = e["n"]
                if n in done:
                    continue
                if self._decorator_eligible(n, t):
                    # the documented decorator form: @owner.overload([aliases]) def impl(...): ...
                    aliases = [dec(x["v"]) for x in entries if x["n"] == n]
                    dn = self.nodes[self.nodes[n - 1]["dflt"] - 1]
                    f = self.body(dn["f"], 0, n)
                    owner = self.obj[self.tabowner[t]]
                    self.obj[n] = owner.overload(aliases if len(aliases) > 1 else aliases[0])(f)
                    done.add(n)
                else:
                    self.register(t, e)
        self.root = self.obj[len(nodes)]

    # -- callables -----------------------------------------------------------------------
    def _raises(self, name, args):
        for f, a in self.raises:
            if f == name and strict_eq(a, tuple(args)):
                return True
        return False

    def make_exc(self, name):
        kind = self.style.get("exc", "user")
        if kind == "user":
            e = UserRaise(name)
        elif kind == "key":
            e = KeyError(name)
        elif kind == "runtime":
            e = RuntimeError(name)
        elif kind == "evalerr":
            from labrea.exceptions import EvaluationError

            class UserEvaluationError(EvaluationError):
                pass

            e = UserEvaluationError("raised by user code: " + name, self.lab.Value(None))
        else:
            raise ValueError(kind)
        e.verif_name = name
        self.raised.append(e)
        return e

    def fn(self, kind, name, owner=0):
        if self.style.get("picklable"):
            from . import picklelib as P

            return {"body": getattr(P, "var_" + name, None), "apply": P.apply_g,
                    "callback": P.cb_none if name == "none" else P.cb, "effect": P.e1}[kind]
        log = self.log
        me = self

        def call(*args):
            # like a real body, the callable consumes lazy iterables it is given
            args = tuple(force(a) for a in args)
            log.append((kind, name, args, owner))
            if me._raises(name, args):
                raise me.make_exc(name)
            if name == "none":
                return None
            return ("T", name, tuple(args))

        call.__name__ = "%s_%s" % (kind, name)
        return call

    def body(self, name, nargs, owner=0):
        """A function with `nargs` named parameters (dataset definitions need a signature)."""
        if self.style.get("picklable"):
            from . import picklelib as P

            return getattr(P, "body_%s%d" % (name, nargs))
        inner = self.fn("body", name, owner)
        if nargs == 0:
            def f():
                return inner()
        elif nargs == 1:
            def f(a0):
                return inner(a0)
        elif nargs == 2:
            def f(a0, a1):
                return inner(a0, a1)
        elif nargs == 3:
            def f(a0, a1, a2):
                return inner(a0, a1, a2)
        else:
            raise ValueError(nargs)
        f.__name__ = "body_" + name
        f.__qualname__ = "body_" + name
        return f

    # -- nodes ---------------------------------------------------------------------------
    def _build(self, i, nd):
        L = self.lab
        O = self.obj
        k = nd["k"]
        if k == "val":
            return L.Value(dec(nd["v"]))
        if k == "allopts":
            return L.AllOptions
        if k == "opt":
            kw = {}
            d = nd["d"]
            if d:
                dn = self.nodes[d - 1]
                if dn["k"] == "val":
                    kw["default"] = dec(dn["v"])  # the documented form: a plain constant
                elif dn["k"] == "tmpl" and not dn["ps"]:
                    kw["default"] = tokens_to_str(dn["s"])  # a string default is a template
                elif dn["k"] == "fnapp" and not dn["args"]:
                    kw["default_factory"] = self.body(dn["f"], 0, d)
                else:
                    kw["default"] = O[d]
            dom = nd["dom"]
            if dom:
                dn = self.nodes[dom - 1]
                kw["domain"] = dec(dn["v"]) if dn["k"] == "val" else O[dom]
            return L.Option(".".join(nd["p"]), **kw)
        if k == "pred":
            name = nd["pred"]
            log = self.log

            def mkpred(t, _n=name, _i=i):
                log.append(("pred", _n, (t,), _i))       # building the predicate from its argument is user code too
                return Pred(_n, t)

            return O[nd["arg"]].apply(mkpred)
        if k == "tmpl":
            return L.Template(tokens_to_str(nd["s"]), **{p["name"]: O[p["n"]] for p in nd["ps"]})
        if k == "apply":
            f = self.fn("apply", nd["f"], i)
            if nd.get("fp") and self.style.get("picklable"):
                from . import picklelib as P
                from labrea.application import PartialApplication
                from labrea.pipeline import PipelineStep

                # the importable two-argument step, its parameter produced by another node (what the
                # pipeline_step decorator builds from a signature default)
                f = PipelineStep(PartialApplication.lift(P.step_g, p=O[nd["fp"]]), "step_g")
            elif nd.get("fp"):
                # a decorated pipeline step whose parameter is produced by another node
                def stepfn(x, p=O[nd["fp"]], _f=f):
                    return _f(x, p)

                stepfn.__name__ = "step_" + nd["f"]
                f = L.pipeline_step(stepfn)
            return (O[nd["src"]] >> f) if (self.style.get("rshift") or i % 2) else O[nd["src"]].apply(f)
        if k == "bind":
            table = [(dec(e["v"]), O[e["n"]]) for e in nd["lk"]]
            other = O[nd["other"]] if nd["other"] else None
            log = self.log
            me_ = self

            def bindfn(x, _t=table, _o=other, _i=i):
                log.append(("bindfn", _i, (x,), _i))
                for v, tgt in _t:
                    if strict_eq(v, x):
                        return tgt
                if _o is None:
                    raise me_.make_exc("bindfn")
                return _o

            return O[nd["src"]].bind(bindfn)
        if k == "switch":
            lookup = {dec(e["v"]): O[e["n"]] for e in nd["lk"]}
            if nd["dflt"]:
                return L.Switch(O[nd["d"]], lookup, O[nd["dflt"]])
            return L.Switch(O[nd["d"]], lookup)
        if k == "case":
            c = L.case(O[nd["d"]])
            partials = [c]
            for cs in nd["cases"]:
                c = c.when(O[cs["c"]], O[cs["n"]])
                partials.append(c)
            if nd["dflt"]:
                c = c.otherwise(O[nd["dflt"]])
                partials.append(c)
            # every (partially) built case object is extended once more for use "in another context"; the fluent
            # interface returns new objects, so the ones built above are not affected by it
            for p_ in partials:
                p_.when(lambda v: True, L.Value("verif-other-context"))
                p_.otherwise(L.Value("verif-other-default"))
            return c
        if k == "coalesce":
            return L.Coalesce(*[O[m] for m in nd["ms"]])
        if k == "coll":
            ms = [O[m] for m in nd["ms"]]
            c = nd["c"]
            if c == "iter":
                return L.Iter(*ms)
            if c == "list":
                return L.evaluatable_list(*ms)
            if c == "tuple":
                return L.evaluatable_tuple(*ms)
            if c == "set":
                return L.evaluatable_set(*ms)
            if c == "dict":
                return L.evaluatable_dict(dict(zip(nd["names"], ms)))
            raise ValueError(c)
        if k == "map":
            return L.Map(O[nd["inner"]], {".".join(it["p"]): O[it["n"]] for it in nd["its"]})
        if k == "with":
            q = dec(nd["q"])
            self.presets[i] = {"q": q}
            return L.WithOptions(O[nd["inner"]], q, force=True) if nd["force"] else L.WithDefaultOptions(O[nd["inner"]], q)
        if k == "cached":
            return L.cached(O[nd["inner"]])
        if k == "logged":
            import logging

            from labrea.logging import Logged

            if nd["first"]:   # log_first=True is the default: both spellings
                return Logged(O[nd["inner"]], logging.INFO, "verif.logged", "L%d" % i) if i % 2 else \
                    Logged(O[nd["inner"]], logging.INFO, "verif.logged", "L%d" % i, log_first=True)
            return Logged(O[nd["inner"]], logging.INFO, "verif.logged", "L%d" % i, log_first=False)
        if k == "fnapp":
            from labrea.application import FunctionApplication

            return FunctionApplication(self.fn("body", nd["f"], i), *[O[a] for a in nd["args"]])
        if k == "ds":
            return self._dataset(i, nd)
        if k == "dsof":
            q2 = dec(nd["q2"])
            self.presets[i] = {"q2": q2}
            base = O[nd["base"]]
            return base.with_options(q2) if nd["mode"] == "force" else base.with_default_options(q2)
        raise ValueError("unknown node kind %r" % k)

    def _dataset(self, i, nd):
        L = self.lab
        O = self.obj
        kw = {}
        if nd["disp"]:
            kw["dispatch"] = O[nd["disp"]]
        q, dd = dec(nd["q"]), dec(nd["dd"])
        self.presets[i] = {"q": q, "dd": dd}
        if q:
            kw["options"] = q
        if dd:
            kw["default_options"] = dd
        if nd["cb"]:
            kw["callback"] = self.fn("callback", nd["cb"], i)
        if nd["effs"]:
            kw["effects"] = [self._effect(e, i) for e in nd["effs"]]
        if nd.get("cache") == "none":
            kw["cache"] = __import__("labrea.cache", fromlist=["NoCache"]).NoCache()
        form = (i + len(self.nodes)) % 3   # three equivalent ways of saying the same dataset
        if nd["dflt"]:
            dn = self.nodes[nd["dflt"] - 1]
            if dn["k"] == "fnapp":
                f = self.body(dn["f"], len(dn["args"]), i)
                defaults = {"a%d" % j: O[a] for j, a in enumerate(dn["args"])}
                if form == 0:
                    ds = L.dataset(f, defaults=defaults, **kw)
                elif form == 1:   # stacked factories: dataset(a=...)(b=...)(f)
                    fac = L.dataset
                    for key in sorted(kw):
                        fac = fac(**{key: kw[key]})
                    ds = fac.where(**defaults)(f)
                else:             # decorator-with-arguments form
                    ds = L.dataset(defaults=defaults, **kw)(f)
            else:
                ds = L.dataset(O[nd["dflt"]], **kw)
        else:
            if self.style.get("picklable"):
                from . import picklelib as P

                abstract = P.abstract_body
            else:
                def abstract():
                    raise AssertionError("abstract dataset body must never run")
                abstract.__name__ = "abstract_%d" % i
            ds = L.abstractdataset(abstract, **kw) if form != 1 else L.abstractdataset(**kw)(abstract)
        if nd["tab"]:
            self.tabowner[nd["tab"]] = i
        if nd.get("effoff"):
            ds.disable_effects()
        return ds

    def _decorator_eligible(self, n, t):
        """A plain cached dataset (no options, callback, effects, dispatch; body without arguments) that is
        used only as an overload implementation of table t can be declared with @owner.overload(...)."""
        nd = self.nodes[n - 1]
        if self.style.get("picklable") or nd["k"] != "ds" or nd["disp"] or not nd["dflt"] or nd["cb"] or nd["effs"] \
                or nd.get("cache", "mem") != "mem" or dec(nd["q"]) or dec(nd["dd"]):
            return False
        dn = self.nodes[nd["dflt"] - 1]
        if dn["k"] != "fnapp" or dn["args"]:
            return False
        for j, other in enumerate(self.nodes, start=1):
            for key in ("d", "dom", "arg", "src", "other", "dflt", "inner", "base", "fp", "disp"):
                if other.get(key) == n and j != n:
                    return False
            for key in ("ms", "args"):
                if n in other.get(key, []):
                    return False
            for key in ("lk", "its", "cases", "ps"):
                for e in other.get(key, []):
                    if n in (e.get("n"), e.get("c")):
                        return False
        if n == len(self.nodes):
            return False
        for tt, entries in enumerate(self.tabs, start=1):
            if tt != t and any(e["n"] == n for e in entries):
                return False
        return (n + len(self.nodes)) % 2 == 0   # alternate with the explicit register() form

    def _effect(self, name, owner):
        """A constant callable effect, or ("ep") an effect step whose parameter is Option('EP')."""
        if name == "le":
            return self._log_effect(owner)
        if name != "ep":
            return self.fn("effect", name, owner)
        log = self.log

        def ep(value, p=self.lab.Option("EP")):
            log.append(("effect", "ep", (value, p), owner))

        return self.lab.pipeline_step(ep)

    _LE_SEQ = [0]

    def _log_effect(self, owner):
        """LogEffect(INFO, <a logger of this graph>, "LE<owner>"); a record that reaches the logger is entered
        in the graph's log as an effect run of the owner."""
        import logging

        from labrea.logging import LogEffect

        Built._LE_SEQ[0] = (Built._LE_SEQ[0] + 1) % 4096
        name = "verif.effect.g%d" % Built._LE_SEQ[0]
        log = self.log

        class H(logging.Handler):
            def emit(self, record):
                log.append(("effect", "le", (), int(record.getMessage()[2:])))

        lg = logging.getLogger(name)
        if not getattr(self, "_le_logger", None):
            lg.handlers[:] = [H(level=0)]
            lg.setLevel(0)
            self._le_logger = name
        return LogEffect(logging.INFO, self._le_logger, "LE%d" % owner)

    def register(self, tab, entry):
        do_register(self.obj[self.tabowner[tab]], dec(entry["v"]), self.obj[entry["n"]], entry["n"])


def do_register(owner, alias, impl, salt=0):
    """dataset.register(alias, impl), or - when the implementation is itself a dataset - the stacked-decorator
    spelling owner.overload(alias)(impl) (what `@a.overload(x)` above `@b.overload(y) def f` does): always for a
    composite (tuple) alias, which overload() must take as ONE alias, and for every other implementation otherwise."""
    if isinstance(impl, type(owner)) and (isinstance(alias, tuple) or salt % 2 == 1):
        got = owner.overload(alias)(impl)
        if got is not impl:
            raise AssertionError("overload(alias)(dataset) returned another object")
    else:
        owner.register(alias, impl)
