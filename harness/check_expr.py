"""Expression-semantics properties: TLC explores every graph of a family and every
dictionary (checking the semantic invariants on the specification), exports one CASE per
(graph, dictionary) with everything the specification prescribes, and the cases are replayed
on freshly built real labrea objects.  The property decides which relation is applied.
"""
import json
import multiprocessing as mp
import os
import subprocess
import sys
import threading

from . import evidence, tlc, verdicts
from .common import NPROC, SEED, SPEC, MachineryError, Scratch, Timer, canon, import_labrea
from .findings import Reporter

INVARIANTS = ["KeysPresentOnly", "KeysSufficient", "ValidateGuards", "Agree", "ExplainCoversKeys",
              "ExplainNamesMissing", "ExplainFailsOnlyInsufficient"]

ASSUME = ["TLC 1.8 + CommunityModules Json trusted", "confectioner modelled as it behaves (pinned dependency)",
          "well-sorted dictionaries: a path is consistently a leaf or a section", "bodies are uninterpreted constructors"]
RULES = {
    "C05": "every (graph, dictionary) CASE of the family: all trees of <= N nodes over apply, bind, switch, case, coalesce, "
           "Iter and the list/tuple/set/dict collections, Map, function application, options and constants x every dictionary "
           "over the mentioned keys + one unmentioned key; evaluate() of a freshly built real graph (generators forced) = the "
           "specification's Eval (value, or failure class and missing key); non-trivial = composite graph",
    "C10": "same CASE export; the three real calls validate/keys/evaluate on fresh graphs must succeed or fail together whenever "
           "the specification says no body/predicate raises and every value is in its domain, and a passing validate excludes a "
           "missing-option failure of evaluate; the same agreement on every bracketing of pipelines of <= 3-4 steps from "
           "spec/Pipelines.tla; non-trivial = some call fails in the specification",
    "C11": "same CASE export, every dictionary incl. the empty one and all sub-dictionaries of sufficient ones; explain() against "
           "keys()/validate() of the same real graph (covers keys; absent listed keys <=> validate fails for a missing option; the "
           "missing key is listed; failures only InsufficientInformationError where the specification cannot choose a branch); "
           "non-trivial = explain lists an absent key or fails",
    "C08": "family presets: every graph of <= N nodes rooted at WithOptions / WithDefaultOptions / a dataset with options= / "
           "default_options= / a with_options or with_default_options derivative (nested; datasets with callbacks and effects) x "
           "every dictionary overlapping the pre-set ones inside section S; the wrapped real expression under o vs the unwrapped real "
           "expression under the overlaid dictionary computed by the specification (Mix), the specification's value, and deep "
           "snapshots of every input dictionary before/after evaluate, validate, keys, explain; non-trivial = every case",
    "C01": "family caching: every DAG of <= N nodes over datasets (overloads, pre-set/default options, callbacks, effects), cached(), "
           "switch, coalesce, wrappers, collections, Map; all dictionaries of the graph evaluated in 4 orders (forward, reverse, two "
           "seeded shuffles) on ONE long-lived real graph, each outcome compared with a freshly built copy and with the specification; "
           "sibling derivatives of the root dataset evaluated one after the other; the cache requests of the repository's own pytest "
           "session validated by TLC against Trace_Requests.tla (exists/get answer from what was stored, set only after a miss); "
           "non-trivial = an evaluation that had predecessors on the same instance",
    "C02": "family caching: per (graph, dictionary): body runs per cached dataset in one evaluation <= the specification's distinct "
           "demands (Permit); effects only after their body; then exact repeat / added+changed unmentioned keys / permuted key order "
           "must run no cached body and no effect and return the same value; non-trivial = the first evaluation succeeded",
    "C06": "families combinators + caching with recording bodies / apply functions / bind functions / callbacks / effects: building "
           "the graph runs nothing; during evaluate, validate, keys and explain (fresh graph each) every callable that runs belongs "
           "to a node in the specification's Visit set (the selected path: no unselected switch/case/overload branch, no coalesce "
           "member after the first success, no default of a present option); non-trivial = the graph has callables off the selected path",
    "C12": "family failing: graphs over datasets / cached / apply / switch / coalesce / collections whose bodies, apply functions, "
           "callbacks and effects raise on chosen inputs (the specification's Raises), each replayed with four exception types "
           "(a harness exception, KeyError, RuntimeError, an EvaluationError subclass raised by user code); at the public boundary: "
           "EvaluationError, .source is the object called, the cause chain ends in the original exception object / names the "
           "specification's missing key; then all dictionaries of the graph in several orders on one long-lived instance: every "
           "outcome equals a fresh copy's (a failure stored nothing); non-trivial = the evaluation fails",
    "C16": "family caching (datasets with callbacks/effects, mixed nocache): per (graph, dictionary) a sample of 4 (quick) / all 45 "
           "(thorough) settings of cache{on,DISABLED,DISABLE,context,nocache} x effects{on,option,per-dataset} x logging{on,option,"
           "context}, each applied to one evaluation inside a history cold -> plain -> switched -> plain on a long-lived real graph: "
           "values equal the all-switches-off fresh value; disabled cache neither reads nor writes (recompute, next enabled evaluation "
           "recomputes once, stored entry survives); no effect when disabled; no logging record when disabled, otherwise exactly one "
           "INFO record per dataset evaluation not served from a cache; family logging (Logged wrappers with log_first True/False anywhere "
           "in graphs over options, applications, switch, coalesce, lists): the messages emitted are exactly those of the specification's "
           "MustLog (lower bound, Surely) / MayLog (upper bound, Visit) / NoLog (log_first=False and the wrapped evaluation fails), at the "
           "given level, in the given order relative to the wrapped node, each one observed as a LogRequest by a pass-through handler, and "
           "none with logging disabled by option or context (same value); family logeffects (datasets whose effects include a LogEffect): "
           "a LogEffect record exactly for the datasets computed with effects and logging on, none with either disabled; "
           "non-trivial = graph contains a dataset / a Logged node",
    "C19": "family classes: every dataset class of 1-3 members (options with flat and dotted keys, options with defaults, datasets, "
           "function applications, constants; the first member inherited from a base class) x every dictionary; attributes of the "
           "instance = the specification's Eval of each member; class-level keys/validate/explain = the specification's union; for "
           "ALL pairs of dictionaries of a class: instances equal iff the options restricted to the reported keys (the specification's "
           "Restrict, nested dotted keys by path) are equal; repr shows every reported key with its value; non-trivial = instantiation succeeds",
    "C20": "family pickling: dataset graphs built only from importable module-level callables (harness/picklelib.py: explicit "
           "dataset(f) form, overloads registered before pickling, pre-set/default options, callbacks, effects, derivatives, cached, "
           "switch, coalesce, wrappers, collections, Map); pickle round trip in-process for every protocol (cold and warm caches) and "
           "into a freshly started interpreter (batched); outcomes and keys() of the copy = those of a fresh original for every "
           "dictionary; a further register() + evaluation on the copy works; the decorator form is a listed known finding; "
           "non-trivial = the graph contains a dataset",
    "C18": "reflection: every concrete Evaluatable / Effect class defined under labrea.* must be known to the machinery (else exit 2) "
           "and issue its four operations as requests; families combinators + caching: pass-through recording handlers for each of the "
           "nine request types alone and all together leave evaluate / validate / keys / explain unchanged; the EvaluateRequest handler "
           "observes the root and every node of the specification's Visit set (identity of the real objects); cache-exists, log and "
           "type-validation requests are observed where datasets / options are evaluated; a substituting EvaluateRequest handler for one "
           "dataset gives the same outcome as the real graph with that node replaced by the constant; non-trivial = composite graph",
    "C03": "same CASE export grouped by graph: keys() present-only; evaluate()/keys() on the dictionary restricted to keys() (the "
           "specification's Restrict) unchanged; for ALL pairs of dictionaries of a graph the fingerprints are equal iff reported "
           "keys and their values are equal (this enumerates every change/delete/add perturbation inside the universe); "
           "fingerprints of a sample with >= 2 keys recomputed by child interpreters started with PYTHONHASHSEED 1 / 4242 / random must be byte-identical; "
           "non-trivial = keys() non-empty",
}

# family -> constants (names of definitions in MC_Expr.tla) and shards (lists of root kinds)
FAMILIES = {
    "combinators": dict(
        consts=dict(Raises="NoRaises", Kinds="FC_Kinds", Paths="FC_Paths", Consts="FC_Consts", Tmpls="None0",
                    Fns="FC_Fns", Bodies="FC_Bodies", DispVals="FC_Disp", Preds="FC_Preds", Presets="None0",
                    MapPaths="FC_MapPaths", Leaves="FC_Leaves"),
        sharing=False,
        runs={"quick": [dict(mode="bfs", max_nodes=3), dict(mode="sim", max_nodes=5, min_nodes=4, num=16000, depth=16, procs=8)],
              "thorough": [dict(mode="bfs", max_nodes=4), dict(mode="sim", max_nodes=6, min_nodes=4, num=40000, depth=16, procs=12)]},
        runs_light={"quick": [dict(mode="bfs", max_nodes=2), dict(mode="sim", max_nodes=5, min_nodes=3, num=8000, depth=16, procs=8)],
                    "thorough": [dict(mode="bfs", max_nodes=3), dict(mode="sim", max_nodes=6, min_nodes=4, num=20000, depth=16, procs=12)]},
        shards=[["opt", "val", "pred", "fnapp"], ["apply"], ["bind"], ["switch"], ["case"], ["coalesce"], ["coll"], ["map"]],
        shard_defs={"apply": "SK_apply", "bind": "SK_bind", "switch": "SK_switch", "case": "SK_case",
                    "coalesce": "SK_coalesce", "coll": "SK_coll", "map": "SK_map", "opt": "SK_leafish"}),
    "presets": dict(
        consts=dict(Raises="NoRaises", Kinds="FP_Kinds", Paths="FP_Paths", Consts="FP_Consts", Tmpls="None0",
                    Fns="None0", Bodies="FP_Bodies", DispVals="NoSeq", Preds="None0", Presets="FP_Presets",
                    MapPaths="None0", Leaves="FP_Leaves", Cbs="FP_Cbs", EffSets="FP_Effs", BothPresets="TRUE"),
        sharing=False,
        runs={"quick": [dict(mode="bfs", max_nodes=3), dict(mode="sim", max_nodes=5, min_nodes=4, num=8000, depth=16, procs=8)],
              "thorough": [dict(mode="bfs", max_nodes=4), dict(mode="sim", max_nodes=6, min_nodes=4, num=20000, depth=16, procs=12)]},
        runs_light={"quick": [dict(mode="bfs", max_nodes=2), dict(mode="sim", max_nodes=5, min_nodes=3, num=8000, depth=16, procs=8)],
                    "thorough": [dict(mode="bfs", max_nodes=3), dict(mode="sim", max_nodes=6, min_nodes=4, num=20000, depth=16, procs=12)]},
        shards=[["with"], ["ds"], ["dsof"]], shard_defs={"with": "SK_with", "ds": "SK_ds", "dsof": "SK_dsof"}),
    "caching": dict(
        consts=dict(Raises="NoRaises", Kinds="FK_Kinds", Paths="FK_Paths", Consts="FK_Consts", Tmpls="None0",
                    Fns="FK_Fns", Bodies="FK_Bodies", DispVals="FK_Disp", Preds="FK_Preds", Presets="FK_Presets",
                    MapPaths="FK_MapPaths", Leaves="FK_Leaves", Cbs="FK_Cbs", EffSets="FK_Effs", Caches="FK_Caches"),
        sharing=True, bfs_consts=dict(Kinds="FK_KindsB", Caches="MemOnly", EffSets="NoEff", Bodies="FK_BodiesB"),
        runs={"quick": [dict(mode="bfs", max_nodes=3, sharing=False),
                        dict(mode="sim", max_nodes=5, min_nodes=3, num=16000, depth=16, procs=8)],
              "thorough": [dict(mode="bfs", max_nodes=3, sharing=True), dict(mode="bfs", max_nodes=4, sharing=False),
                           dict(mode="sim", max_nodes=6, min_nodes=3, num=60000, depth=18, procs=12)]},
        shards=[["ds"], ["cached"], ["with"], ["fnapp"]],
        shard_defs={"ds": "SK_ds", "cached": "SK_cached", "with": "SK_with", "fnapp": "SK_leafish"}),
    "failing": dict(
        consts=dict(Raises="FR_Raises", Kinds="FR_Kinds", Paths="FR_Paths", Consts="FR_Consts", Tmpls="FR_Tmpls",
                    Fns="FR_Fns", Bodies="FR_Bodies", DispVals="FR_Disp", Preds="FR_Preds", Presets="None0",
                    MapPaths="None0", Leaves="FR_Leaves", Cbs="FR_Cbs", EffSets="FR_Effs"),
        sharing=False,
        runs={"quick": [dict(mode="bfs", max_nodes=3), dict(mode="sim", max_nodes=5, min_nodes=3, num=8000, depth=16, procs=8)],
              "thorough": [dict(mode="bfs", max_nodes=4), dict(mode="sim", max_nodes=6, min_nodes=3, num=40000, depth=18, procs=12)]},
        shards=[["ds"], ["cached"], ["apply"], ["switch"], ["coalesce"], ["coll"], ["fnapp", "tmpl", "opt"], ["bind"], ["case"]],
        shard_defs={"ds": "SK_ds", "cached": "SK_cached", "apply": "SK_apply", "switch": "SK_switch", "bind": "SK_bind",
                    "case": "SK_case", "coalesce": "SK_coalesce", "coll": "SK_coll", "fnapp": "SK_leafish"}),
    "failing4": dict(
        consts=dict(Raises="FR_Raises", Kinds="FR4_Kinds", Paths="FR4_Paths", Consts="None0", Tmpls="None0",
                    Fns="None0", Bodies="FR_Bodies", DispVals="NoSeq", Preds="None0", Presets="None0",
                    MapPaths="None0", Leaves="FR_Leaves"),
        sharing=False,
        runs={"quick": [dict(mode="bfs", max_nodes=4)], "thorough": [dict(mode="bfs", max_nodes=5)]},
        shards=[["cached"], ["coalesce"]], shard_defs={"cached": "SK_cached", "coalesce": "SK_coalesce"}),
    "dispatch": dict(
        consts=dict(Raises="NoRaises", Kinds="FD_Kinds", Paths="FD_Paths", Consts="FD_Consts", Tmpls="None0",
                    Fns="None0", Bodies="FD_Bodies", DispVals="FD_Disp", Preds="None0", Presets="None0",
                    MapPaths="None0", Leaves="FD_Leaves", Cbs="FD_Cbs", DispPaths="FD_DispPaths"),
        sharing=False, hist=2, bfs_consts=dict(Kinds="FD_KindsB", Cbs="FD_CbsB", Leaves="FD_LeavesB"),
        runs={"quick": [dict(mode="bfs", max_nodes=4, split=4), dict(mode="sim", max_nodes=6, min_nodes=3, num=16000, depth=26, procs=8, sharing=True)],
              # (with set_dispatch between calls the exhaustive run stays at 4 nodes; depth comes from the simulation)
              "thorough": [dict(mode="bfs", max_nodes=4, split=8), dict(mode="sim", max_nodes=7, min_nodes=3, num=80000, depth=32, procs=12, sharing=True)]},
        shards=[["ds"]], shard_defs={"ds": "SK_ds"}),
    "tupledispatch": dict(
        consts=dict(Raises="NoRaises", Kinds="FD_Kinds", Paths="FD_Paths", Consts="FD_Consts", Tmpls="None0",
                    Fns="None0", Bodies="FD_Bodies", DispVals="FDT_Disp", Preds="None0", Presets="None0",
                    MapPaths="None0", Leaves="FDT_Leaves", Cbs="FD_Cbs", DispPaths="FD_DispPaths"),
        sharing=False, hist=2, bfs_consts=dict(Kinds="FD_KindsB", Cbs="FD_CbsB", Leaves="FDT_LeavesB", DispVals="FDT_DispB"),
        runs={"quick": [dict(mode="bfs", max_nodes=3, split=2), dict(mode="sim", max_nodes=6, min_nodes=3, num=6000, depth=26, procs=6, sharing=True)],
              "thorough": [dict(mode="bfs", max_nodes=4, split=8), dict(mode="sim", max_nodes=7, min_nodes=3, num=40000, depth=32, procs=12, sharing=True)]},
        shards=[["ds"]], shard_defs={"ds": "SK_ds"}),
    "shadowsection": dict(
        consts=dict(Raises="NoRaises", Kinds="FSH_Kinds", Paths="FSH_Paths", Consts="None0", Tmpls="None0",
                    Fns="None0", Bodies="FK_BodiesB", DispVals="NoSeq", Preds="None0", Presets="FSH_Presets",
                    MapPaths="None0", Leaves="FSH_Leaves", Cbs="NoCb"),
        sharing=False,
        runs={"quick": [dict(mode="bfs", max_nodes=4)], "thorough": [dict(mode="bfs", max_nodes=5, split=4)]},
        shards=[["ds"], ["with"]], shard_defs={"ds": "SK_ds", "with": "SK_with"}),
    "classes": dict(
        consts=dict(Raises="NoRaises", Kinds="FL_Kinds", Paths="FL_Paths", Consts="FL_Consts", Tmpls="None0",
                    Fns="None0", Bodies="FL_Bodies", DispVals="NoSeq", Preds="None0", Presets="None0",
                    MapPaths="None0", Leaves="FL_Leaves", CollKinds="DictIter"),
        sharing=False,
        runs={"quick": [dict(mode="bfs", max_nodes=4)], "thorough": [dict(mode="bfs", max_nodes=5)]},
        shards=[["coll"]], shard_defs={"coll": "SK_coll"}),
    "pickling": dict(
        consts=dict(Raises="NoRaises", Kinds="FG_Kinds", Paths="FK_Paths", Consts="FK_Consts", Tmpls="None0",
                    Fns="FK_Fns", Bodies="FK_Bodies", DispVals="FK_Disp", Preds="None0", Presets="FK_Presets",
                    MapPaths="FK_MapPaths", Leaves="FK_Leaves", Cbs="FP_Cbs", EffSets="FK_Effs", Caches="FK_Caches"),
        sharing=True, bfs_consts=dict(Kinds="FK_KindsB", Caches="MemOnly", EffSets="NoEff", Cbs="FK_Cbs"),
        runs={"quick": [dict(mode="bfs", max_nodes=3, sharing=False),
                        dict(mode="sim", max_nodes=5, min_nodes=3, num=12000, depth=16, procs=8)],
              "thorough": [dict(mode="bfs", max_nodes=4, sharing=False),
                           dict(mode="sim", max_nodes=6, min_nodes=3, num=60000, depth=18, procs=12)]},
        shards=[["ds"], ["cached"], ["with"], ["fnapp"]],
        shard_defs={"ds": "SK_ds", "cached": "SK_cached", "with": "SK_with", "fnapp": "SK_leafish"}),
    "tmplparams": dict(
        consts=dict(Raises="NoRaises", Kinds="FTP_Kinds", Paths="FTP_Paths", Consts="None0", Tmpls="FTP_Tmpls",
                    Fns="None0", Bodies="None0", DispVals="NoSeq", Preds="None0", Presets="FTP_Presets",
                    MapPaths="None0", Leaves="FTP_Leaves", ParamKinds="FTP_ParamKinds"),
        sharing=True,
        runs={"quick": [dict(mode="bfs", max_nodes=3)], "thorough": [dict(mode="bfs", max_nodes=4)]},
        shards=[["tmpl"]], shard_defs={"tmpl": "SK_tmpl"}),
    "mapswitch": dict(
        consts=dict(Raises="NoRaises", Kinds="FMS_Kinds", Paths="FMS_Paths", Consts="FMS_Consts", Tmpls="None0",
                    Fns="None0", Bodies="None0", DispVals="FMS_Disp", Preds="None0", Presets="None0",
                    MapPaths="FMS_MapPaths", Leaves="FMS_Leaves", PlainOpts="TRUE"),
        sharing=True,
        sim_roots="SK_map",
        # exhaustively: every DAG of the shape val, opt, opt, switch, map (KindSeq); by simulation: any shape
        bfs_consts=dict(KindSeq="FMS_Seq"),
        runs={"quick": [dict(mode="bfs", max_nodes=5, min_nodes=5, split=4), dict(mode="sim", max_nodes=5, min_nodes=4, num=6000, depth=18, procs=6)],
              "thorough": [dict(mode="bfs", max_nodes=5, min_nodes=5, split=4), dict(mode="sim", max_nodes=6, min_nodes=4, num=120000, depth=20, procs=12)]},
        shards=[["map"]], shard_defs={"map": "SK_map"}),
    "deepsections": dict(
        consts=dict(Raises="NoRaises", Kinds="FDS_Kinds", Paths="FDS_Paths", Consts="None0", Tmpls="None0",
                    Fns="None0", Bodies="FDS_Bodies", DispVals="NoSeq", Preds="None0", Presets="FDS_Presets",
                    MapPaths="None0", Leaves="FDS_Leaves", PlainOpts="TRUE"),
        sharing=False,
        runs={"quick": [dict(mode="bfs", max_nodes=4)], "thorough": [dict(mode="bfs", max_nodes=5)]},
        shards=[["with"], ["cached"], ["ds"], ["dsof"]],
        shard_defs={"with": "SK_with", "cached": "SK_cached", "ds": "SK_ds", "dsof": "SK_dsof"}),
    "caseseq": dict(
        consts=dict(Raises="NoRaises", Kinds="FCS_Kinds", Paths="FCS_Paths", Consts="FCQ_Consts", Tmpls="None0",
                    Fns="None0", Bodies="None0", DispVals="NoSeq", Preds="FCQ_Preds", Presets="None0",
                    MapPaths="None0", Leaves="FCQ_Leaves", PlainOpts="TRUE", KindSeq="FCQ_Seq"),
        sharing=True,
        runs={"quick": [dict(mode="bfs", max_nodes=6, min_nodes=6, split=4)], "thorough": [dict(mode="bfs", max_nodes=6, min_nodes=6, split=4)]},
        shards=[["case"]], shard_defs={"case": "SK_case"}),
    "coalesceiter": dict(
        consts=dict(Raises="NoRaises", Kinds="SK_all", Paths="FC_Paths", Consts="FCQ_Consts", Tmpls="None0",
                    Fns="None0", Bodies="None0", DispVals="NoSeq", Preds="None0", Presets="None0",
                    MapPaths="None0", Leaves="FCI_Leaves", PlainOpts="TRUE", KindSeq="FCI_Seq", CollKinds="FCI_Coll"),
        sharing=True,
        runs={"quick": [dict(mode="bfs", max_nodes=5, min_nodes=5)], "thorough": [dict(mode="bfs", max_nodes=5, min_nodes=5)]},
        shards=[["coalesce"]], shard_defs={"coalesce": "SK_coalesce"}),
    "failseq": dict(
        consts=dict(Raises="FR_Raises", Kinds="SK_all", Paths="FR4_Paths", Consts="FR_Consts", Tmpls="None0",
                    Fns="None0", Bodies="FR_Bodies", DispVals="FFS_Disp", Preds="None0", Presets="None0",
                    MapPaths="None0", Leaves="FFS_Leaves", PlainOpts="TRUE", KindSeq="FFS_Seq"),
        sharing=True,
        runs={"quick": [dict(mode="bfs", max_nodes=5, min_nodes=5, split=4)], "thorough": [dict(mode="bfs", max_nodes=5, min_nodes=5, split=4)]},
        shards=[["coalesce"]], shard_defs={"coalesce": "SK_coalesce"}),
    "illsorted": dict(
        consts=dict(Raises="NoRaises", Kinds="FI_Kinds", Paths="FI_Paths", Consts="FI_Consts", Tmpls="None0",
                    Fns="None0", Bodies="None0", DispVals="NoSeq", Preds="None0", Presets="None0",
                    MapPaths="None0", Leaves="FI_Leaves"),
        sharing=False,
        runs={"quick": [dict(mode="bfs", max_nodes=3)], "thorough": [dict(mode="bfs", max_nodes=3)]},
        shards=[["opt"]], shard_defs={"opt": "SK_opt"}),
    "effparams": dict(
        consts=dict(Raises="NoRaises", Kinds="FE_Kinds", Paths="FE_Paths", Consts="None0", Tmpls="None0",
                    Fns="None0", Bodies="FE_Bodies", DispVals="NoSeq", Preds="None0", Presets="None0",
                    MapPaths="None0", Leaves="FE_Leaves", EffSets="FE_Effs"),
        sharing=False,
        runs={"quick": [dict(mode="bfs", max_nodes=3)], "thorough": [dict(mode="bfs", max_nodes=4)]},
        shards=[["ds"]], shard_defs={"ds": "SK_ds"}),
    "selectors": dict(
        consts=dict(Raises="NoRaises", Kinds="FSL_Kinds", Paths="FSL_Paths", Consts="FSL_Consts", Tmpls="None0",
                    Fns="None0", Bodies="None0", DispVals="FSL_Disp", Preds="None0", Presets="None0",
                    MapPaths="None0", Leaves="FSL_Leaves"),
        sharing=False,
        runs={"quick": [dict(mode="bfs", max_nodes=4)], "thorough": [dict(mode="bfs", max_nodes=5)]},
        shards=[["coalesce"], ["switch"], ["opt"]], shard_defs={"coalesce": "SK_coalesce", "switch": "SK_switch", "opt": "SK_opt"}),
    "overloads": dict(
        consts=dict(Raises="NoRaises", Kinds="FD_KindsB", Paths="FD_Paths", Consts="None0", Tmpls="None0",
                    Fns="None0", Bodies="FOV_Bodies", DispVals="FD_Disp", Preds="None0", Presets="None0",
                    MapPaths="None0", Leaves="FOV_Leaves", Cbs="NoCb"),
        sharing=False,
        runs={"quick": [dict(mode="bfs", max_nodes=5, split=4)], "thorough": [dict(mode="bfs", max_nodes=6, split=8)]},
        shards=[["ds"]], shard_defs={"ds": "SK_ds"}),
    "cases": dict(
        consts=dict(Raises="NoRaises", Kinds="FCS_Kinds", Paths="FCS_Paths", Consts="FCS_Consts", Tmpls="None0",
                    Fns="None0", Bodies="None0", DispVals="NoSeq", Preds="FCS_Preds", Presets="None0",
                    MapPaths="None0", Leaves="FCS_Leaves"),
        sharing=True,
        runs={"quick": [dict(mode="bfs", max_nodes=5, sharing=False), dict(mode="sim", max_nodes=7, min_nodes=5, num=8000, depth=22, procs=8)],
              "thorough": [dict(mode="bfs", max_nodes=6, sharing=False), dict(mode="sim", max_nodes=8, min_nodes=5, num=60000, depth=26, procs=12)]},
        shards=[["case"]], shard_defs={"case": "SK_case"}),
    "logging": dict(
        consts=dict(Raises="NoRaises", Kinds="FLG_Kinds", Paths="FLG_Paths", Consts="FLG_Consts", Tmpls="None0",
                    Fns="FLG_Fns", Bodies="FLG_Bodies", DispVals="FLG_Disp", Preds="None0", Presets="None0",
                    MapPaths="None0", Leaves="FLG_Leaves", CollKinds="FS_Coll"),
        sharing=False,
        runs={"quick": [dict(mode="bfs", max_nodes=3), dict(mode="sim", max_nodes=5, min_nodes=4, num=6000, depth=16, procs=8)],
              "thorough": [dict(mode="bfs", max_nodes=4), dict(mode="sim", max_nodes=6, min_nodes=4, num=30000, depth=18, procs=12)]},
        shards=[["logged"], ["apply", "fnapp"], ["switch"], ["coalesce"], ["coll"]],
        shard_defs={"logged": "SK_logged", "apply": "SK_applyfn", "switch": "SK_switch", "coalesce": "SK_coalesce", "coll": "SK_coll"}),
    "logeffects": dict(
        consts=dict(Raises="NoRaises", Kinds="FK_KindsB", Paths="FK_Paths", Consts="FK_Consts", Tmpls="None0",
                    Fns="FK_Fns", Bodies="FK_Bodies", DispVals="NoSeq", Preds="None0", Presets="FK_Presets",
                    MapPaths="None0", Leaves="FK_Leaves", Cbs="FK_Cbs", EffSets="FKL_Effs", Caches="FK_Caches"),
        sharing=True,
        runs={"quick": [dict(mode="sim", max_nodes=4, min_nodes=2, num=4000, depth=14, procs=8)],
              "thorough": [dict(mode="sim", max_nodes=5, min_nodes=2, num=30000, depth=16, procs=12)]},
        shards=[["ds"]], shard_defs={"ds": "SK_ds"}),
    "maps": dict(
        consts=dict(Raises="NoRaises", Kinds="FM_Kinds", Paths="FM_Paths", Consts="FM_Consts", Tmpls="None0",
                    Fns="None0", Bodies="FM_Bodies", DispVals="NoSeq", Preds="None0", Presets="None0",
                    MapPaths="FM_MapPaths", Leaves="FM_Leaves"),
        sharing=False,
        runs={"quick": [dict(mode="bfs", max_nodes=4)], "thorough": [dict(mode="bfs", max_nodes=5)]},
        shards=[["map"]], shard_defs={"map": "SK_map"}),
    "siblings": dict(
        consts=dict(Raises="NoRaises", Kinds="FS_Kinds", Paths="FS_Paths", Consts="None0", Tmpls="None0",
                    Fns="None0", Bodies="FS_Bodies", DispVals="NoSeq", Preds="None0", Presets="FS_Presets",
                    MapPaths="None0", Leaves="FS_Leaves", CollKinds="FS_Coll", Cbs="FK_Cbs"),
        sharing=True,
        runs={"quick": [dict(mode="sim", max_nodes=6, min_nodes=5, num=24000, depth=20, procs=8)],
              "thorough": [dict(mode="sim", max_nodes=7, min_nodes=5, num=120000, depth=24, procs=12)]},
        shards=[["coll"]], shard_defs={"coll": "SK_coll"}),
    "options": dict(
        consts=dict(Raises="NoRaises", Kinds="FO_Kinds", Paths="FO_Paths", Consts="FO_Consts", Tmpls="FO_Tmpls",
                    Fns="None0", Bodies="FO_Bodies", DispVals="NoSeq", Preds="FO_Preds", Presets="None0",
                    MapPaths="None0", Leaves="FO_Leaves"),
        sharing=False,
        runs={"quick": [dict(mode="bfs", max_nodes=3, split=4)],
              "thorough": [dict(mode="bfs", max_nodes=4), dict(mode="sim", max_nodes=6, min_nodes=4, num=20000, depth=16, procs=12)]},
        runs_light={"quick": [dict(mode="bfs", max_nodes=2), dict(mode="sim", max_nodes=4, min_nodes=3, num=3000, depth=14, procs=8)],
                    "thorough": [dict(mode="bfs", max_nodes=3), dict(mode="sim", max_nodes=6, min_nodes=4, num=20000, depth=16, procs=12)]},
        shards=[["opt"], ["tmpl"]], shard_defs={"opt": "SK_opt", "tmpl": "SK_tmpl"}),
}


def write_cfg(path, fam, tier, roots_def, invariants, emit, max_nodes, min_nodes=1, sim=False, sharing=None,
              nshards=1, shard=0):
    f = FAMILIES[fam]
    lines = ["SPECIFICATION MCSpec", "CONSTANTS"]
    consts = dict(Cbs="NoCb", EffSets="NoEff", Caches="MemOnly", BothPresets="FALSE", CollKinds="AllColl", PlainOpts="FALSE", KindSeq="NoSeq", DispPaths="None0", ParamKinds="PK_Default")
    consts.update(f["consts"])
    if not sim and "bfs_consts" in f:
        consts.update(f["bfs_consts"])
    for k, v in consts.items():
        lines.append(("  %s = %s" if v in ("TRUE", "FALSE") else "  %s <- %s") % (k, v))
    lines.append("  RootKinds <- %s" % roots_def)
    lines.append("  MaxNodes = %d" % max_nodes)
    lines.append("  MinNodes = %d" % min_nodes)
    lines.append("  NShards = %d" % nshards)
    lines.append("  Shard = %d" % shard)
    lines.append("  RequireComplete = %s" % ("FALSE" if sim else "TRUE"))
    lines.append("  KeepHist = %s" % ("TRUE" if f.get("hist") else "FALSE"))
    lines.append("  MaxHist = %d" % f.get("hist", 1))
    lines.append("  LateRegister = %s" % ("TRUE" if f.get("hist") else "FALSE"))
    lines.append("  Sharing = %s" % ("TRUE" if (f["sharing"] if sharing is None else sharing) else "FALSE"))
    lines.append('  Family = "%s"' % fam)
    lines.append("VIEW MCView")
    for inv in invariants:
        lines.append("INVARIANT " + inv)
    if emit:
        lines.append("ACTION_CONSTRAINT Emit")
    lines.append("CHECK_DEADLOCK FALSE")
    with open(path, "w") as fh:
        fh.write("\n".join(lines) + "\n")


# ------------------------------------------------------------------------------------------
_PROP = None
_LAB = None


def _init_worker(prop):
    global _PROP, _LAB
    _PROP = prop
    _LAB = import_labrea()
    from .common import tier as _tier

    verdicts.TIER[0] = _tier()


def _work(groups):
    """groups: list of lists of CASE json strings, one list per graph.
    Returns (n, nontrivial, violations, sample)."""
    out = []
    n = nt = 0
    sample = None
    pairs = []
    for payloads in groups:
        cases = [json.loads(p) for p in payloads]
        n += len(cases)
        pairs.extend(verdicts.judge_group(_PROP, cases, _LAB))
    verdicts.finish_chunk(_PROP, _LAB)
    for case, res in pairs:
        if res.nontrivial:
            nt += 1
            if sample is None:
                sample = case
        for clause, detail in res.violations:
            if len(out) < 200:
                out.append((clause, detail, case))
    return n, nt, out, sample


def _vlog(msg):
    if os.environ.get("VERIF_VERBOSE"):
        print("[%s] %s" % (__import__("time").strftime("%H:%M:%S"), msg), file=sys.stderr, flush=True)


class _Feeder(threading.Thread):
    """Reads one TLC process's output and submits chunks of CASE payloads to the pool."""

    def __init__(self, cmd, env, pool, results, stats, chunk=400):
        super().__init__(daemon=True)
        self.cmd, self.env, self.pool, self.results, self.stats, self.chunk = cmd, env, pool, results, stats, chunk
        self.tail = []
        self.rc = None
        self.cases = 0

    def run(self):
        proc = tlc.register_child(subprocess.Popen(self.cmd, cwd=SPEC, stdout=subprocess.PIPE,
                                                   stderr=subprocess.STDOUT, text=True, env=self.env))
        groups = []
        cur = []
        curkey = None
        size = 0
        for line in proc.stdout:
            if line.startswith('"CASE '):
                payload = json.loads(line)[5:]
                self.cases += 1
                key = payload[:payload.find(',"a":{')]
                if key != curkey:
                    if cur:
                        groups.append(cur)
                        size += len(cur)
                    cur = []
                    curkey = key
                    if size >= self.chunk:
                        self.results.append(self.pool.apply_async(_work, (groups,)))
                        groups = []
                        size = 0
                cur.append(payload)
            else:
                self.tail.append(line)
                if len(self.tail) > 300:
                    del self.tail[:150]
        if cur:
            groups.append(cur)
        if groups:
            self.results.append(self.pool.apply_async(_work, (groups,)))
        self.rc = proc.wait()
        _vlog("generator done: %s cases=%d" % (" ".join(self.cmd[-6:]), self.cases))


def _tlc_cmd(sc, tag, cfg, extra=()):
    meta = sc.path("meta-%s" % tag, "x")
    return ["java", "-XX:+UseParallelGC", "-Xmx3g", "-cp", tlc.JAVA_CP, "tlc2.TLC", "-workers", "1",
            "-metadir", os.path.dirname(meta), "-noGenerateSpecTE", "-config", cfg] + list(extra) + ["MC_Expr.tla"]


_SIMSTAT = __import__("re").compile(r"The number of states generated: (\d+)")


def run_family(prop, fam, tier, sc, rep):
    """Returns (states, transitions, cases replayed, non-trivial, violations, sample)."""
    if "@" in fam:   # "family@quick": this family always runs at the named tier's size
        fam, tier = fam.split("@")
    light = fam.endswith(":light")
    fam = fam.split(":")[0]
    f = dict(FAMILIES[fam])
    if light:
        f["runs"] = f["runs_light"]
    states = trans = 0
    ctx = mp.get_context("fork")
    pool = ctx.Pool(NPROC, initializer=_init_worker, initargs=(prop,))
    results = []
    feeders = []
    for ri, run in enumerate(f["runs"][tier]):
        if run["mode"] == "bfs":
            mc_cfg = sc.path("cfg", "MC_%s_%d.cfg" % (fam, ri))
            write_cfg(mc_cfg, fam, tier, "SK_all", INVARIANTS, emit=False, max_nodes=run["max_nodes"],
                      min_nodes=run.get("min_nodes", 1), sharing=run.get("sharing"))
            mc = tlc.require_clean(tlc.run_tlc("MC_Expr", os.path.relpath(mc_cfg, os.path.join(SPEC, "cfg")),
                                               workers=NPROC, scratch=sc), "MC_Expr/%s/bfs%d" % (fam, run["max_nodes"]))
            states += mc.distinct
            trans += mc.generated
            _vlog("MC %s bfs%d: %d states in %.1fs" % (fam, run["max_nodes"], mc.distinct, mc.wall))
            split = run.get("split", 1 if tier == "quick" else 4)
            for i, roots in enumerate(f["shards"]):
                for k in range(split):
                    gen_cfg = sc.path("cfg", "Gen_%s_%d_%d_%d.cfg" % (fam, ri, i, k))
                    write_cfg(gen_cfg, fam, tier, f["shard_defs"][roots[0]], [], emit=True, max_nodes=run["max_nodes"],
                              min_nodes=run.get("min_nodes", 1), sharing=run.get("sharing"), nshards=split, shard=k)
                    fd = _Feeder(_tlc_cmd(sc, "gen-%s-%d-%d-%d" % (fam, ri, i, k), gen_cfg), dict(os.environ), pool,
                                 results, None)
                    fd.kind = "bfs"
                    feeders.append(fd)
        else:
            procs = run.get("procs", 8)
            for i in range(procs):
                sim_cfg = sc.path("cfg", "Sim_%s_%d.cfg" % (fam, ri))
                write_cfg(sim_cfg, fam, tier, f.get("sim_roots", "SK_all"), INVARIANTS, emit=True, max_nodes=run["max_nodes"],
                          min_nodes=run["min_nodes"], sim=True, sharing=run.get("sharing"))
                extra = ["-simulate", "num=%d" % max(1, run["num"] // procs), "-depth", str(run["depth"]),
                         "-seed", str(SEED * 1000 + ri * 100 + i + 1)]
                fd = _Feeder(_tlc_cmd(sc, "sim-%s-%d-%d" % (fam, ri, i), sim_cfg, extra), dict(os.environ), pool,
                             results, None)
                fd.kind = "sim"
                feeders.append(fd)
    # run at most NPROC//2 generators at a time (the replay pool needs the other cores)
    limit = max(2, NPROC // 2)
    pending = list(feeders)
    running = []
    while pending or running:
        running = [fd for fd in running if fd.is_alive()]
        while pending and len(running) < limit:
            fd = pending.pop(0)
            fd.start()
            running.append(fd)
        if running:
            running[0].join(0.2)
    _vlog("all generators finished; waiting for %d replay chunks" % len(results))
    pool.close()
    total = nontriv = 0
    viol = []
    sample = None
    for r in results:
        n, nt, out, smp = r.get()
        total += n
        nontriv += nt
        viol.extend(out)
        if smp is not None and (sample is None or len(canon(smp)) > len(canon(sample))):
            sample = smp
    pool.join()
    for fd in feeders:
        text = "".join(fd.tail)
        if "is violated" in text:
            raise MachineryError("specification self-contradiction (invariant violated during %s generation of family %s):\n%s" % (
                fd.kind, fam, text[-3000:]))
        if fd.rc != 0 or any(l.startswith("Error:") for l in fd.tail):
            raise MachineryError("generation TLC failed for family %s:\n%s" % (fam, text[-3000:]))
        if fd.kind == "sim":
            m = _SIMSTAT.search(text)
            if m:
                trans += int(m.group(1))
                states += fd.cases
    if sum(fd.cases for fd in feeders) == 0:
        raise MachineryError("family %s generated no case" % fam)
    return states, trans, total, nontriv, viol, sample


def summarize(viol, limit=12):
    groups = {}
    for clause, detail, case in viol:
        root = case["nodes"][-1]["k"]
        kinds = ",".join(sorted({nd["k"] for nd in case["nodes"]}))
        groups.setdefault((clause, root, kinds), []).append((detail, case))
    for (clause, root, kinds), items in sorted(groups.items(), key=lambda kv: -len(kv[1]))[:limit]:
        items.sort(key=lambda dc: len(canon(dc[1])))
        detail, case = items[0]
        print("  [%d] clause=%s root=%s kinds=%s\n      %s\n      nodes=%s\n      o=%s" % (
            len(items), clause, root, kinds, detail, canon(case["nodes"]), canon(case["a"]["o"])), file=sys.stderr)


def check(prop, tier, fams, level_rule, assumptions, extra=None):
    timer = Timer()
    rep = Reporter(prop)
    states = trans = total = nontriv = 0
    allviol = []
    sample = None
    with Scratch() as sc:
        if extra is not None:
            st, tr, n, nt = extra(prop, tier, sc, rep)[:4]
            states += st
            trans += tr
            total += n
            nontriv += nt
        for fam in fams:
            st, tr, n, nt, viol, smp = run_family(prop, fam, tier, sc, rep)
            sample = smp or sample
            states += st
            trans += tr
            total += n
            nontriv += nt
            allviol.extend(viol)
    allviol.sort(key=lambda v: (len(canon(v[2]["nodes"])), len(canon(v[2]["a"]["o"])), canon(v[2])))
    for clause, detail, case in allviol:
        sig = verdicts.signature(prop, clause, case, detail)
        rep.violation(sig, {"kind": "expr", "prop": prop, "clause": clause, "detail": detail, "case": case})
    if allviol and os.environ.get("VERIF_VERBOSE"):
        summarize(allviol)
    code = rep.finish()
    evidence.write(prop, tier, "model_checking", {
        "states": states, "transitions": trans,
        "traces_validated_against_impl": total,
        "evaluations": total, "distinct_nontrivial": nontriv,
        "rule": level_rule,
        "samples": [sample or {"note": "no non-trivial case"}],
        "exhaustive": True,
        "exhaustive_note": "the bfs runs enumerate their family completely; the simulate runs are seeded random samples of larger graphs",
        "families": {fam: FAMILIES[fam.split("@")[0].split(":")[0]]["runs_light" if ":light" in fam else "runs"][
            fam.split("@")[1] if "@" in fam else tier] for fam in fams},
        "invariants_checked_by_tlc": INVARIANTS,
        "violating_cases": len(allviol),
        "known_finding_hits": rep.known_hits,
    }, timer.s(), violations=len(rep.violations), assumptions=assumptions)
    return code


def replay_file(doc):
    lab = import_labrea()
    cases = doc.get("group") or [doc["case"]]
    res = None
    for c, r in verdicts.judge_group(doc["prop"], cases, lab):
        if canon(c) == canon(doc["case"]):
            res = r
    bad = [v for v in res.violations if v[0] == doc["clause"]] or res.violations
    if not bad:
        print("replay: the recorded case now satisfies %s" % doc["prop"])
        return 0
    for clause, detail in bad:
        print("replay: clause %s: %s" % (clause, detail))
    print("VIOLATION property=%s replay=%s" % (doc.get("property", doc["prop"]), doc.get("_path")))
    return 1
