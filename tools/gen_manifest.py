#!/usr/bin/env python3
"""Regenerates /verif/MANIFEST.json from the table below (one source for the interface file)."""
import json, os
V = os.path.dirname(os.path.dirname(os.path.abspath(__file__)))
props = [json.loads(l) for l in open(os.path.join(V, "properties.jsonl"))]
EXPR_NOTE = ("bounded: exhaustive over the family's graphs (<=3 nodes quick, <=4 thorough) and dictionary universes, seeded "
             "TLC -simulate samples beyond (<=5-6 nodes); TLC, the CommunityModules Json module and CPython are trusted; "
             "confectioner modelled as it behaves; dictionaries well-sorted; bodies are uninterpreted constructors")
EXPR_TECH = "TLA+ reference semantics (Expr.tla) checked by TLC; TLC-generated (graph, dictionary, expected observation) cases replayed into real labrea objects"
C = {
 "C14": dict(text="TLC checks ServedByTop / ExitRestores / DeriveIsPure / LateDefaultServes on spec/RuntimeMachine.tla exhaustively (3 request types, <=3-4 runtime objects, nesting <=3-4) and exports the complete abstract state graph; every path up to length 5 (quick) / 6 (thorough), seeded random walks and a transition cover are replayed on labrea.runtime in fresh threads through real with-blocks, comparing the handler that served every request with the one the specification prescribes; recorded random executions beyond the bounds are validated by TLC (Trace_Runtime).",
             note="bounded: sequences beyond the path length are sampled, not exhausted; operation-granularity serialisation; a registered default is never replaced",
             tech="TLA+ model checking (TLC) + replay of the exported state graph's paths into the implementation + TLC trace validation", ref="5 C14"),
 "C15": dict(text="TLC checks ThreadLocal / InheritSnapshot on the 2-3 thread RuntimeMachine and AllRegistered / ContextsThreadLocal / OwnValue on ThreadsImpl.tla (the code's critical sections, every interleaving; three broken designs must be rejected). Bound to the code both ways: paths of the exported multi-thread graph replayed with one real thread per logical thread, and scenarios run under a deterministic scheduler (bytecode / line granularity, every single preemption, sampled pairs) whose call/ret histories TLC checks for linearizability against Threads.tla.",
             note="bounded preemptions (<=1 quick, <=2 sampled thorough); preemption only at bytecode boundaries of labrea frames; locks made cooperative by replacing threading.Lock as seen from labrea modules",
             tech="TLC model checking of an atomic-operation spec + critical-section model; deterministic scheduler; TLC trace validation (linearizability)", ref="5 C15"),
 "C04": dict(text="Option resolution decided against the specification's Eval/Validate on every (graph, dictionary) of family options: present/absent x every falsy value, templated values, list indices, nested sections, every default form and domain form.", ref="5 C04"),
 "C09": dict(text="Template substitution decided against the specification's Resolve (transitive, typed single references, escapes) and TemplateReads (keys()/explain() must include every key read) on family options.", ref="5 C09"),
 "C05": dict(text="Every combinator evaluated on a fresh real graph must yield the specification's Eval (value or failure class) for every tree of the family and every dictionary.", ref="5 C05"),
 "C10": dict(text="validate/keys/evaluate of the real code agree whenever the specification says bodies are total and values in domain; validate passing excludes a missing-option failure; TLC checks the same (Agree, ValidateGuards) on the specification.", ref="5 C10"),
 "C11": dict(text="explain() of the real code against its own keys()/validate() on every sub-dictionary; failures must be InsufficientInformationError exactly where the specification cannot choose a branch; TLC checks ExplainCoversKeys / ExplainNamesMissing / ExplainFailsOnlyInsufficient on the specification.", ref="5 C11"),
 "C03": dict(text="keys() present-only and sufficient (restricted dictionary computed by the specification), fingerprints equal iff reported keys and values equal over ALL pairs of dictionaries of each graph; TLC checks KeysPresentOnly / KeysSufficient on the specification.", ref="5 C03"),
 "C08": dict(text="Wrapped expression under o equals the unwrapped real expression under the specification's overlay (Mix), for WithOptions / WithDefaultOptions / dataset options / with_options derivatives, nested; inputs deep-compared before/after every call.", ref="5 C08"),
 "C01": dict(text="All dictionaries of each graph evaluated in several orders on ONE long-lived real graph; every outcome equals a fresh copy's and the specification's; TLC checks KeysSufficient (the reason a memo keyed on keys() is transparent).", ref="5 C01"),
 "C06": dict(text="Recording bodies / apply functions / bind functions / callbacks / effects: construction runs nothing, and during evaluate, validate, keys, explain every callable that runs belongs to a node of the specification's Visit set (the selected path).", ref="5 C06"),
 "C12": dict(text="Failures at the public boundary (four exception types raised by user callables per the specification's Raises sets): EvaluationError, source identity, cause chain to the original exception object / the specification's missing key; histories on one long-lived graph show a failure stored nothing. One open known finding (coalesce fall-through vs keys).", ref="5 C12"),
 "C07": dict(text="spec/Interface.tla (definitions accepted / rejected atomically) replayed on real @interface/@implements classes for every sequence of <= 2 definitions; family dispatch of the expression machine replays every history interleaving register() with evaluations on one long-lived graph against the specification's value under the tables at that time (stored values exempt).", ref="5 C07"),
 "C16": dict(text="Per-evaluation switch settings (cache 5 x effects 3 x logging 3) inside histories on a long-lived graph of the caching family: values equal the all-off fresh value; disabled cache neither reads nor writes; no effect / log record when disabled; exactly one INFO record per dataset evaluation not served from a cache (counted by a pass-through handler).", ref="5 C16"),
 "C17": dict(text="spec/CacheImpl.tla: Cached.evaluate micro-steps against a contract-respecting but unreliable backend; TLC checks FaultyStillCorrect / AtMostRecompute for every fault assignment; every complete history of the exported graph is replayed with a scripted Cache subclass (call sequence, values, run counts), and random longer histories are validated by TLC (Trace_Cache).",
             note="one cached dataset, two option values, faults on the first 5 (quick) / 8 (thorough) backend calls exhaustively, random beyond; the backend never returns a wrong value (contract)", tech="TLC model checking of a micro-step model + exhaustive replay of its histories with fault injection + TLC trace validation", ref="5 C17"),
 "C13": dict(text="spec/Pipelines.tla: pipelines denote step sequences; TLC checks Assoc / IdLeft / IdRight / Compose on the bounded term universe and exports every bracketing of every sequence of <= 4 (quick) / 5 (thorough) steps plus a 33-helper table (parameter as constant and as option); each case replayed on real pipelines: iteration order, transform, e >> p, keys/explain, composition.",
             note="uninterpreted steps; helpers on integer / list inputs only; division compared as IEEE quotient", tech="TLA+ term algebra + helper table checked by TLC; every generated case replayed into real pipelines", ref="5 C13"),
 "C19": dict(text="Dataset classes as named member collections of the expression machine: attributes, class-level keys/validate/explain (union over members incl. an inherited one from a parent dataset class that was used first), equality over ALL pairs of dictionaries iff the specification's restricted options are equal, repr shows every reported key with its value.", ref="5 C19"),
 "C20": dict(text="Graphs built from importable callables pickled with every protocol (cold and warm caches) in-process and into a freshly started interpreter: outcomes and keys of the copy equal a fresh original's for every dictionary of the family; further register()+evaluate works on the copy. One open known finding (decorator form).", ref="5 C20"),
 "C18": dict(text="Reflection over the package's concrete Evaluatable / Effect classes (unknown class = machinery failure; every operation must be a request-issuing wrapper) and, on families combinators + caching, pass-through handlers for each of the nine request types alone and together: results unchanged, the root and every node of the specification's Visit set observed, side requests observed at the nodes that issue them, a substituting EvaluateRequest handler equals the graph with the node replaced.", ref="5 C18"),
 "C02": dict(text="Body/effect execution counters against the specification's demand analysis (Permit): one run per distinct demand, none on exact repeat / unmentioned keys / permuted key order; effects only after their body.", ref="5 C02"),
}
checks = []
for p in props:
    i = p["id"]
    if i not in C:
        continue
    c = C[i]
    checks.append({
        "property_id": i, "quick_cmd": "bin/check %s --tier quick" % i, "thorough_cmd": "bin/check %s --tier thorough" % i,
        "evidence_file": "/verif/evidence/%s.json" % i, "replay_cmd_template": "bin/check --replay {path}", "engine": "tlc+replay",
        "level_claimed": {"category": "model_checking", "text": c["text"], "design_ref": "DESIGN.md " + c["ref"]},
        "level_note": c.get("note", EXPR_NOTE), "technique": c.get("tech", EXPR_TECH)})
m = {
 "version": 1,
 "setup_cmd": "bin/setup",
 "hooks": {"guard": "LABREA_VERIF", "enable": "no source hooks: the code is observed through its public API, harness-supplied bodies/caches/handlers and (for C15) sys.monitoring; LABREA_VERIF=1 is exported by bin/check for symmetry only",
           "baseline_off_cmd": "cd /repo && /venv/bin/python -m pytest -ra -q -p no:cacheprovider --timeout=900 --continue-on-collection-errors",
           "source_commits": [], "add_only": True},
 "engines": [{"name": "tlc+replay", "path": "harness/", "serves_properties": sorted(C),
              "kind_free_text": "TLC model checking of spec/*.tla; TLC-exported graphs/cases replayed into real labrea objects; recorded traces validated by TLC"}],
 "checks": checks,
 "notes": "See DESIGN.md. known_findings.json lists fixed/open findings; seeded/ holds confirmed breaking changes and which checks catch them.",
 "not_applicable": [{"property_id": p["id"], "reason": "check not built yet in this round; no claim is made until its check is registered"}
                    for p in props if p["id"] not in C],
}
json.dump(m, open(os.path.join(V, "MANIFEST.json"), "w"), indent=1)
print("checks:", [c["property_id"] for c in checks])
