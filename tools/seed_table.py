#!/usr/bin/env python3
"""Prints the markdown table of seeded changes from seeded/*/meta.json (for DESIGN.md 11.6)."""
import glob, json, os
V = os.path.dirname(os.path.dirname(os.path.abspath(__file__)))
print("| seed | breaks | needs in order to manifest | caught by | silent |")
print("|---|---|---|---|---|")
for f in sorted(glob.glob(os.path.join(V, "seeded", "*", "meta.json"))):
    m = json.load(open(f))
    needs = m["needs_to_manifest"]
    if needs == "see notes.md":
        notes = os.path.join(os.path.dirname(f), "notes.md")
        needs = "see seeded/%s/notes.md" % m["id"]
    print("| %s | %s | %s | %s | %s |" % (m["id"], m["breaks_property"], needs, ", ".join(m["detected_by"]) or "-", ", ".join(m["silent"]) or "-"))
